import NloptModel.Model.F64
import NloptModel.Model.Stop
/-!
# Control-flow model of `mlsl_minimize` (src/algs/mlsl/mlsl.c), the driver of NLOPT_G_MLSL / NLOPT_G_MLSL_LDS /
# NLOPT_G{N,D}_MLSL / NLOPT_G{N,D}_MLSL_LDS

`run A c evs` consumes the sequence of EVENTS seen by `mlsl_minimize` and decides, exactly like the C code, after every
event whether the driver goes on (and with which kind of event, and — for a local search — from which sample point) or
returns, with which result code, which `x` and which `*minf`.

## The two kinds of events

    Ev.eval x f forced          one of mlsl_minimize's OWN evaluations `f(n, x, NULL, f_data)` (mlsl.c lines 335 and 360 of
                                HEAD): the starting point first, then `N` sample points per pass of the outer loop.  The
                                sample coordinates (Sobol' sequence or `nlopt_urand`) are NOT modelled: the point is part of
                                the event.  `forced` = `nlopt_stop_forced(stop)` is true at the test that follows the call.
    Ev.sub ret x0 x f used forced
                                one call of `nlopt_optimize_limited(local_opt, lm+1, lm, budget, ...)` (line 404) started
                                from the sample point `x0` returned `ret`, leaving the local minimizer `x` in `lm[1..n]` and
                                its value `f` in `lm[0]`, having made `used` calls of `fcount` (each increments
                                `*stop->nevals_p`); `forced` = the force-stop flag of the PARENT object is set when the
                                call returns.  WHICH sample point the search starts from is decided by the model; an event
                                whose `x0` is not that point makes the run `malformed`.

The local optimizer is not modelled.  What the model computes with the `Arith` parameter exactly as the C code: the two
red-black trees as ORDERED LISTS (`pts` sorted by `f`, `lms` sorted by `f`; see "Tree order" below), `distance2`, the
fields `closest_pt_d`, `closest_lm_d`, `minimized` of every sample point (`find_closest_pt`, `find_closest_lm`,
`pts_update_newpt`, `pts_update_newlm`), `gam(n)` (with its INTEGER division `n/2`), `R_prefactor`, the critical radius
`R`, the loop bound `(int)(ceil(gamma * pts.N) + 0.5)`, `is_potential_minimizer` (the `minimized` flag, the two distance
rules with `dlm = 1.0`, the boundary rule with `dbound = 1e-6`), the order in which sample points get a local search,
the budget `stop->maxeval - *(stop->nevals_p)` handed to each one (`Res.subs`), every stopping test and their order
(own evaluation: forced, maxeval, `f < minf_max`; before a local search: forced, maxeval; after a local search:
`lret < 0` -> `goto done` WITHOUT `get_minf`, forced, `*lm < minf_max`, maxeval), and `get_minf` (what is written to
`x` / `*minf` and when: at the top of every pass of the outer loop and after the loop).

`ceil(v)` is expressed with `Arith.toInt` / `Arith.ofInt`: `t = (int) v; ceil = (double) t < v ? t + 1 : t`, which is
`ceil` for every `v` whose truncation fits an `int` (here `0 < v <= 0.3 * number of points`).

## Tree order

`rb_tree_insert` descends with `compare(k, p->k) <= 0 ? left : right`.  For a comparison that is a total preorder
(no NaN key) the new node therefore ends up in in-order position BEFORE every node with an equal key and after every
node with a smaller key, whatever the shape of the tree (rotations keep the in-order sequence): the in-order sequence
is sorted by `f`, ties NEWEST FIRST (machine-checked against the red-black tree model of Model/RBTree.lean:
`DrvMlsl.insBy_matches_rbtree`).  The model keeps the in-order sequence as a list (`insBy`: insert before the first
element `e` with `!(k.f > e.f)`).  `find_lt` + `pred` walk = the elements with `f` strictly smaller (a prefix, walked
from the largest down: `lessRev`); `find_gt` + `succ` walk = the elements with `f` strictly greater (a suffix; the
updates touch every node independently, so they are a `map` with the condition `e.f > f`).
NaN: `pt_compare` / `lm_compare` return 0 whenever one key is NaN, which is not a consistent order: where a NaN-valued
node sits, and what `find_lt` / `find_gt` return afterwards, depends on the SHAPE of the C tree (rotations), which this
model does not track.  The model is total anyway (`insBy` is defined for every key) but it is exact only while no
objective value (own evaluation or local-search result that gets inserted) is NaN; the theorems that need an order
(T4) carry the decidable hypothesis `NoNaN`.

## Result

    Res.ret        nlopt_result (0 = placeholder of a short / malformed run)
    Res.nevals     the value of `*stop->nevals_p` = own evaluations + sum of `used`
    Res.nevents    number of events consumed
    Res.x, minf    the caller's `x` and `*minf` (`none` = never written: only before the first event, or `pop < 0`)
    Res.short      the events ran out before the driver returned
    Res.malformed  the next event was not one the driver could have produced: wrong kind (a `sub` where an own
                   evaluation is due or conversely), an initial own evaluation at a point other than `x0`, or a `sub`
                   whose start point is not the sample point the algorithm selects.  The offending event is not consumed.
    Res.subs       for every consumed `sub` event, in order: (the budget `maxeval - nevals` handed to
                   `nlopt_optimize_limited`, `used`)

## Not modelled

The local optimizer and `nlopt_optimize_limited` itself; the setup calls on `local_opt`; the sample generators; malloc
failure; the time limit (maxtime = 0); `int` overflow of the counters; a force-stop flag raised asynchronously between
two events (the flag is only ever observed as `forced` on an event, so the test at line 391 never fires in the model;
it is there in the C code for a flag set by another thread).  The compiler is assumed not to contract `d += dx*dx`
into a fused multiply-add (default x86-64 builds do not) and to fold `sqrt(2./K2PI)`, `exp(-0.5)` to the values the
run-time library gives.  `mlsl_minimize` sees the problem after the `maximize` sign flip of `nlopt_optimize`.
The parent's ftol/xtol are not read by `mlsl_minimize` (they only configure the default local optimizer in optimize.c).

## Line protocol (`nlopt_model mlsl`)

Tokens are separated by one space.  A double is 16 lower-case hex digits (its bits).  `<vec>` = comma separated doubles,
`-` for the empty/absent vector.

    cfg key=value ...      starts a new run (resets everything), prints nothing.  Keys (all optional, any order):
        n=<nat>            dimension (default 0)
        pop=<int>          `Nsamples` as handed to mlsl_minimize (default 0 = the default 4; negative: INVALID_ARGS)
        maxeval=<int>      (default 0 = no limit)
        stopval=<double>   minf_max (default fff0000000000000 = -Inf)
        x0=<vec>           the caller's x on entry
        lb=<vec> ub=<vec>  the bounds
    eval <xvec> <f> <0|1>  appends an own evaluation, prints nothing
    sub <ret> <x0vec> <xvec> <f> <used> <0|1>
                           appends a local search, prints nothing (`<ret>`, `<used>` decimal)
    end                    prints `<ret> <nevals_total> <xvec> <minf hex or -> <short 0|1> <malformed 0|1>`
    budgets                prints the budgets handed to the consumed `sub` events, comma separated decimals, `-` if none
    rpre                   prints `R_prefactor` (hex) of the current configuration
    next                   prints what the driver waits for after the collected events: `eval`, `sub <x0vec>`, or `-`
                           (returned / malformed)
    anything else          prints `bad-op`

Worked example (n = 2, box [0,1]^2, N = 1 sample per pass, maxeval = 10; f(x0 = (0.5,0.5)) = 3; the sample (0.25,0.25)
has f = 1; R_prefactor = 0.78187..., R = R_prefactor * (log 2 / 2)^(1/2) = 0.4603...; the loop bound is ceil(0.3 * 2) = 1,
so only the best point (0.25,0.25) is examined: its closest better point is at distance^2 = +Inf, it is further than
1e-6 * R from the bounds: it is a potential minimizer; the local search is handed 10 - 2 = 8 evaluations, uses 5 and
returns 4 (XTOL_REACHED) at (0.125,0.125) with f = 0.5; in the next pass the flag is raised during the evaluation of the
sample (0.75,0.75)):

    cfg n=2 pop=1 maxeval=10 x0=3fe0000000000000,3fe0000000000000 lb=0000000000000000,0000000000000000 ub=3ff0000000000000,3ff0000000000000
    eval 3fe0000000000000,3fe0000000000000 4008000000000000 0
    eval 3fd0000000000000,3fd0000000000000 3ff0000000000000 0
    sub 4 3fd0000000000000,3fd0000000000000 3fc0000000000000,3fc0000000000000 3fe0000000000000 5 0
    eval 3fe8000000000000,3fe8000000000000 4000000000000000 1
    end
    budgets

prints `-5 8 3fc0000000000000,3fc0000000000000 3fe0000000000000 0 0` (FORCED_STOP after 8 evaluations, the local
minimizer with f = 0.5 is returned) and `8`.

## Validation

The model was compared bit for bit with `mlsl_minimize` compiled from the unchanged HEAD sources (replay/src: mlsl.c,
redblack.c, stop.c, sobolseq.c, mt19937ar.c, timer.c) with the real Sobol' / Mersenne-Twister sample generators, a
scripted pseudo-random objective (value palettes with many ties, quantised and exact quadratic bowls, +-Inf) and a
mock local optimizer (replay/mlsl_replay.c, replay/compare.sh) on 22 800 scripted runs (n = 1..4, populations 0/1/2/3/5/8
and -1, degenerate coordinates lb = ub, maxeval <= 0, every result code of the local optimizer, stops raised in own
evaluations and inside local searches, local optimizers that ignore their budget; 577 000 own evaluations, 150 000 local
searches), -O2 and -O0: result code, evaluation count, returned `x` and `*minf`, the start point of every local search
(a wrong start point would make the run `malformed`), the budgets handed to `nlopt_optimize_limited` and `R_prefactor`
all agree.  Seventeen deliberate mutations of the model (tie order, each of the three rules of
`is_potential_minimizer`, `pts_update_newpt` / `newlm`, the `minimized` flag, `n/2`, `ceil`, the order of the stop
tests, `get_minf` on the `goto done` path, ...) were each detected by the same comparison.  With NaN objective values
(`mlsl_replay <seed> <n> nan`) about one run in three differs (649 of 2000; 812 of them contain a NaN own evaluation),
as explained under "Tree order".  The concrete witnesses of
Props/DrvMlsl.lean were replayed on the C code with a scripted `nlopt_urand` (replay/witnesses.c, replay/witnesses.txt).
-/
namespace Nlopt.MlslDrv
open Nlopt

/-- one event (see the file header) -/
inductive Ev where
  | eval (x : List F64) (f : F64) (forced : Bool)
  | sub (ret : Int) (x0 : List F64) (x : List F64) (f : F64) (used : Nat) (forced : Bool)
  deriving DecidableEq, Inhabited

/-- what the control flow of `mlsl_minimize` reads: `n`, `Nsamples` (`pop`), the bounds, `stop->maxeval`,
    `stop->minf_max` (`stopval`) and the caller's `x` -/
structure Cfg where
  n : Nat
  pop : Int := 0
  lb : List F64
  ub : List F64
  maxeval : Int := 0
  stopval : F64 := F64.negInf
  x0 : List F64

structure Res where
  ret : Int
  nevals : Nat
  nevents : Nat
  x : List F64
  minf : Option F64
  short : Bool
  malformed : Bool
  subs : List (Int × Nat)
  deriving DecidableEq, Inhabited

namespace Ev
def isEval : Ev → Bool
  | .eval .. => true
  | .sub .. => false
/-- the point whose value the event reports -/
def xv : Ev → List F64
  | .eval x .. => x
  | .sub _ _ x .. => x
def fv : Ev → F64
  | .eval _ f _ => f
  | .sub _ _ _ f _ _ => f
def forcedv : Ev → Bool
  | .eval _ _ fo => fo
  | .sub _ _ _ _ _ fo => fo
/-- a local search that returned an error code: its result is NOT inserted into the tree of local minima -/
def failed : Ev → Bool
  | .eval .. => false
  | .sub ret .. => decide (ret < 0)
/-- evaluations of the user's objective made during the event -/
def cost : Ev → Nat
  | .eval .. => 1
  | .sub _ _ _ _ used _ => used
end Ev

/-! ## constants of mlsl.c -/

def k2pi : F64 := ⟨0x401921FB54442D18⟩        -- K2PI = 6.2831853071795864769...
def two : F64 := ⟨0x4000000000000000⟩         -- MLSL_SIGMA, and the 2. of sqrt(2./K2PI)
def gammaC : F64 := ⟨0x3FD3333333333333⟩      -- MLSL_GAMMA = 0.3
def half : F64 := ⟨0x3FE0000000000000⟩
def negHalf : F64 := ⟨0xBFE0000000000000⟩
def dlmC : F64 := F64.one                     -- d.dlm = 1.0
def dboundC : F64 := ⟨0x3EB0C6F7A0B5ED8D⟩     -- d.dbound = 1e-6

/-! ## the data structures -/

/-- `pt`: one sample point -/
structure Pt where
  f : F64
  minimized : Bool
  dpt : F64          -- closest_pt_d
  dlm : F64          -- closest_lm_d
  x : List F64
  deriving DecidableEq, Inhabited

/-- one key of the tree `lms`: `[0] = f, [1..n] = x` -/
structure Lm where
  f : F64
  x : List F64
  deriving DecidableEq, Inhabited

def Pt.pair (p : Pt) : List F64 × F64 := (p.x, p.f)
def Lm.pair (l : Lm) : List F64 × F64 := (l.x, l.f)

/-- `rb_tree_insert` on the in-order sequence: `compare(k, p->k) <= 0` (i.e. NOT `k.f > p.f`) goes left, so the new key
    lands before the first element that is not smaller -/
def insBy {α : Type} (key : α → F64) (k : α) : List α → List α
  | [] => [k]
  | e :: es => if F64.gt (key k) (key e) then e :: insBy key k es else k :: e :: es

/-- `distance2(n, x1, x2)` -/
def dist2 (A : Arith) (x1 x2 : List F64) : F64 :=
  (List.zip x1 x2).foldl (fun d p => A.add d (A.mul (A.sub p.1 p.2) (A.sub p.1 p.2))) F64.zero

/-- the loop of `find_closest_pt` / `find_closest_lm` over the points `ys` in the order the C code visits them:
    `d = distance2(n, p->x, y); if (d < closest_d) closest_d = d;` starting from HUGE_VAL -/
def closest (A : Arith) (x : List F64) (ys : List (List F64)) : F64 :=
  ys.foldl (fun cd y => if F64.lt (dist2 A x y) cd then dist2 A x y else cd) F64.posInf

/-- `find_closest_pt`: `find_lt` then `pred` until the minimum = the sample points with a strictly smaller value, from the
    largest down -/
def closestPt (A : Arith) (x : List F64) (f : F64) (pts : List Pt) : F64 :=
  closest A x ((pts.takeWhile fun e => F64.lt e.f f).reverse.map Pt.x)

/-- `find_closest_lm` -/
def closestLm (A : Arith) (x : List F64) (f : F64) (lms : List Lm) : F64 :=
  closest A x ((lms.takeWhile fun e => F64.lt e.f f).reverse.map Lm.x)

/-- `pts_update_newpt`: every not yet minimized point with a greater value: `d = distance2(n, newpt->x, p->x);
    if (d < p->closest_pt_d) p->closest_pt_d = d;` -/
def updNewPt (A : Arith) (x : List F64) (f : F64) (pts : List Pt) : List Pt :=
  pts.map fun p => if F64.gt p.f f && !p.minimized && F64.lt (dist2 A x p.x) p.dpt then { p with dpt := dist2 A x p.x } else p

/-- `pts_update_newlm` -/
def updNewLm (A : Arith) (x : List F64) (f : F64) (pts : List Pt) : List Pt :=
  pts.map fun p => if F64.gt p.f f && !p.minimized && F64.lt (dist2 A x p.x) p.dlm then { p with dlm := dist2 A x p.x } else p

/-- `p->minimized = 1` for the `j`-th node of the in-order sequence -/
def setMin : List Pt → Nat → List Pt
  | [], _ => []
  | p :: ps, 0 => { p with minimized := true } :: ps
  | p :: ps, j + 1 => p :: setMin ps j

/-! ## the MLSL parameters -/

/-- `1.0 / n` -/
def invN (A : Arith) (c : Cfg) : F64 := A.div F64.one (A.ofInt (c.n : Int))

/-- `gam(n)`: `double z = n/2;` (integer division) `return sqrt(pow(K2PI * z, 1.0/n) * z) * exp(-0.5);` -/
def gam (A : Arith) (c : Cfg) : F64 :=
  let z := A.ofInt ((c.n / 2 : Nat) : Int)
  A.mul (A.sqrt (A.mul (A.pow (A.mul k2pi z) (invN A c)) z)) (A.exp negHalf)

/-- `d.R_prefactor = sqrt(2./K2PI) * pow(gam(n) * MLSL_SIGMA, 1.0/n); for (i) d.R_prefactor *= pow(ub[i] - lb[i], 1.0/n);` -/
def rPrefactor (A : Arith) (c : Cfg) : F64 :=
  ((List.zip c.lb c.ub).take c.n).foldl (fun r p => A.mul r (A.pow (A.sub p.2 p.1) (invN A c)))
    (A.mul (A.sqrt (A.div two k2pi)) (A.pow (A.mul (gam A c) two) (invN A c)))

/-- `R = d.R_prefactor * pow(log((double) d.pts.N) / d.pts.N, 1.0 / n)` -/
def radius (A : Arith) (c : Cfg) (np : Nat) : F64 :=
  A.mul (rPrefactor A c) (A.pow (A.div (A.log (A.ofInt (np : Int))) (A.ofInt (np : Int))) (invN A c))

/-- `(int) (ceil(d.gamma * d.pts.N) + 0.5)` -/
def loopBound (A : Arith) (np : Nat) : Int :=
  let v := A.mul gammaC (A.ofInt (np : Int))
  let t := A.toInt v
  let cl := if F64.lt (A.ofInt t) v then t + 1 else t
  A.toInt (A.add (A.ofInt cl) half)

/-- the loop over the coordinates in `is_potential_minimizer`: no coordinate is within `dbound_min` of a bound of a
    non-degenerate interval -/
def awayFromBounds (A : Arith) (c : Cfg) (x : List F64) (db : F64) : Bool :=
  (List.zip x (List.zip c.lb c.ub)).all fun q =>
    !((F64.le (A.sub q.1 q.2.1) db || F64.le (A.sub q.2.2 q.1) db) && F64.gt (A.sub q.2.2 q.2.1) db)

/-- `is_potential_minimizer(&d, p, R, d.dlm*R, d.dbound*R)` -/
def isPot (A : Arith) (c : Cfg) (R : F64) (p : Pt) : Bool :=
  !p.minimized && !F64.le p.dpt (A.mul R R) && !F64.le p.dlm (A.mul (A.mul dlmC R) (A.mul dlmC R))
    && awayFromBounds A c p.x (A.mul dboundC R)

/-- the local-search loop from the current node on: `ps` = the in-order sequence from the current node, `i` = the loop
    counter, `j` = the index of the current node.  The first node that is a potential minimizer, with the counter there. -/
def findCand (A : Arith) (c : Cfg) (R : F64) : List Pt → Nat → Nat → Option (Nat × Nat)
  | [], _, _ => none
  | _ :: _, 0, _ => none
  | p :: ps, i + 1, j => if isPot A c R p then some (j, i + 1) else findCand A c R ps i (j + 1)

/-! ## the state -/

/-- what the driver waits for -/
inductive Phase where
  | init                                   -- the evaluation of the starting point
  | sample (i : Nat)                       -- the sampling loop with loop variable `i` (`i < N`)
  | loc (j : Nat) (i : Nat) (R : F64)      -- the local search from the `j`-th node, loop counter `i`
  deriving DecidableEq

structure St where
  nev : Nat := 0                  -- `*stop->nevals_p`
  cnt : Nat := 0                  -- events consumed
  pts : List Pt := []             -- in-order sequence of the tree `d.pts`
  lms : List Lm := []             -- in-order sequence of the tree `d.lms`
  x : List F64                    -- the caller's array
  minf : Option F64 := none       -- `*minf`
  subs : List (Int × Nat) := []

def St.res (s : St) (ret : Int) (short malformed : Bool) : Res :=
  ⟨ret, s.nev, s.cnt, s.x, s.minf, short, malformed, s.subs⟩

inductive Next where
  | cont (ph : Phase) (s : St)
  | done (ret : Int) (s : St)
  | bad

/-- `d.N` -/
def popN (c : Cfg) : Int := if c.pop = 0 then 4 else c.pop

/-- first half of `get_minf`: `node = rb_tree_min(&d->pts); if (node) { *minf = f; memcpy(x, ...); }` -/
def minfPts (s : St) : St :=
  match s.pts with
  | [] => s
  | p :: _ => { s with minf := some p.f, x := p.x }

/-- second half: `node = rb_tree_min(&d->lms); if (node && node->k[0] < *minf) { *minf = node->k[0]; memcpy(x, ...); }`
    (`*minf` unwritten cannot occur here: the tree of sample points is never empty when `get_minf` is called) -/
def minfLms (s : St) : St :=
  match s.lms, s.minf with
  | l :: _, some m => if F64.lt l.f m then { s with minf := some l.f, x := l.x } else s
  | _, _ => s

/-- `get_minf(&d, minf, x)` -/
def getMinf (s : St) : St := minfLms (minfPts s)

/-- the tests that follow an own evaluation (lines 340-343, 365-368); `nev` = the counter after the increment -/
def stopOwn (c : Cfg) (nev : Nat) (f : F64) (forced : Bool) : Option Int :=
  if forced then some (-5)
  else if Stop.evals c.maxeval (nev : Int) then some 5
  else if F64.lt f c.stopval then some 2
  else none

/-- a sample point as `alloc_pt` leaves it -/
def freshPt (x : List F64) (f : F64) : Pt := ⟨f, false, F64.posInf, F64.posInf, x⟩

/-- the memory after the evaluation of the starting point -/
def afterInit (s : St) (x : List F64) (f : F64) : St :=
  { s with nev := s.nev + 1, cnt := s.cnt + 1, pts := insBy Pt.f (freshPt x f) s.pts }

/-- the memory after a sample whose evaluation ends the run: inserted, the `else` branch (lines 369-373) not executed -/
def afterSampleStop (s : St) (x : List F64) (f : F64) : St :=
  { s with nev := s.nev + 1, cnt := s.cnt + 1, pts := insBy Pt.f (freshPt x f) s.pts }

/-- the memory after a sample that does not end the run: inserted, `find_closest_pt`, `find_closest_lm`,
    `pts_update_newpt` -/
def afterSample (A : Arith) (s : St) (x : List F64) (f : F64) : St :=
  { s with nev := s.nev + 1, cnt := s.cnt + 1
           pts := insBy Pt.f ⟨f, false, closestPt A x f s.pts, closestLm A x f s.lms, x⟩ (updNewPt A x f s.pts) }

/-- the evaluation of the starting point (lines 333-343), then the top of the outer loop -/
def stepInit (c : Cfg) (s : St) (x : List F64) (f : F64) (forced : Bool) : Next :=
  if x ≠ c.x0 then .bad
  else match stopOwn c (s.nev + 1) f forced with
    | some r => .done r (getMinf (afterInit s x f))
    | none => .cont (.sample 0) (getMinf (afterInit s x f))

/-- the local-search loop (lines 381-427) from node `j` with counter `i`: the next node that gets a local search (the tests
    of lines 391-400 passed), or the end of the loop and the top of the next pass (`get_minf`, line 349) -/
def scanFrom (A : Arith) (c : Cfg) (R : F64) (s : St) (j i : Nat) : Next :=
  match findCand A c R (s.pts.drop j) i j with
  | none => .cont (.sample 0) (getMinf s)
  | some (j', i') =>
    if Stop.evals c.maxeval (s.nev : Int) then .done 5 (getMinf s)      -- line 394 (line 391: see the header)
    else .cont (.loc j' i' R) s

/-- the end of the sampling loop: `R`, the loop bound, the first node -/
def startLocal (A : Arith) (c : Cfg) (s : St) : Next :=
  scanFrom A c (radius A c s.pts.length) s 0 (loopBound A s.pts.length).toNat

/-- one pass of the sampling loop (lines 351-374) -/
def stepSample (A : Arith) (c : Cfg) (s : St) (i : Nat) (x : List F64) (f : F64) (forced : Bool) : Next :=
  match stopOwn c (s.nev + 1) f forced with
  | some r => .done r (getMinf (afterSampleStop s x f))
  | none =>
    if ((i + 1 : Nat) : Int) < popN c then .cont (.sample (i + 1)) (afterSample A s x f)
    else startLocal A c (afterSample A s x f)

/-- the memory after `nlopt_optimize_limited` returned: the counter, `p->minimized = 1` -/
def afterSubFail (c : Cfg) (s : St) (j used : Nat) : St :=
  { s with nev := s.nev + used, cnt := s.cnt + 1, subs := s.subs ++ [(c.maxeval - (s.nev : Int), used)]
           pts := setMin s.pts j }

/-- ... and `lm` inserted into `d.lms` (line 410) -/
def afterSubIns (c : Cfg) (s : St) (j : Nat) (x : List F64) (f : F64) (used : Nat) : St :=
  { afterSubFail c s j used with lms := insBy Lm.f ⟨f, x⟩ s.lms }

/-- ... and `pts_update_newlm` (line 421) -/
def afterSubUpd (A : Arith) (c : Cfg) (s : St) (j : Nat) (x : List F64) (f : F64) (used : Nat) : St :=
  { afterSubIns c s j x f used with pts := updNewLm A x f (setMin s.pts j) }

/-- the tests that follow a local search that returned `lret >= 0` (lines 413-419); `nev` = the counter after it -/
def stopSub (c : Cfg) (nev : Nat) (f : F64) (forced : Bool) : Option Int :=
  if forced then some (-5)
  else if F64.lt f c.stopval then some 2
  else if Stop.evals c.maxeval (nev : Int) then some 5
  else none

/-- a local search returned (lines 404-425) -/
def stepLoc (A : Arith) (c : Cfg) (s : St) (j i : Nat) (R : F64)
    (ret : Int) (x0 x : List F64) (f : F64) (used : Nat) (forced : Bool) : Next :=
  match s.pts[j]? with
  | none => .bad
  | some p =>
    if x0 ≠ p.x then .bad
    else if ret < 0 then .done ret (afterSubFail c s j used)              -- line 409: `goto done`, no get_minf
    else match stopSub c (s.nev + used) f forced with
      | some r => .done r (getMinf (afterSubIns c s j x f used))
      | none => scanFrom A c R (afterSubUpd A c s j x f used) (j + 1) (i - 1)

/-- one event -/
def step (A : Arith) (c : Cfg) (ph : Phase) (s : St) (e : Ev) : Next :=
  match ph, e with
  | .init, .eval x f fo => stepInit c s x f fo
  | .sample i, .eval x f fo => stepSample A c s i x f fo
  | .loc j i R, .sub ret x0 x f used fo => stepLoc A c s j i R ret x0 x f used fo
  | _, _ => .bad

/-- the driver; when the events run out: `short` -/
def go (A : Arith) (c : Cfg) : Phase → St → List Ev → Res
  | _, s, [] => s.res 0 true false
  | ph, s, e :: es =>
    match step A c ph s e with
    | .cont ph' s' => go A c ph' s' es
    | .done r s' => s'.res r false false
    | .bad => s.res 0 false true

def St.init (c : Cfg) : St := { x := c.x0 }

/-- `mlsl_minimize`: `if (d.N < 1) return NLOPT_INVALID_ARGS;` before anything else -/
def run (A : Arith) (c : Cfg) (evs : List Ev) : Res :=
  if popN c < 1 then (St.init c).res (-2) false false else go A c .init (St.init c) evs

/-! ## line protocol -/

structure DrvSt where
  cfg : Option Cfg := none
  revs : List Ev := []          -- newest first

def tokens (line : String) : List String := (line.trimAscii.toString.splitOn " ").filter (· ≠ "")

def pF (t : String) : F64 := (F64.ofHex? t).getD F64.zero
def pVec (t : String) : List F64 := if t == "-" || t == "" then [] else (t.splitOn ",").map pF

def kv (toks : List String) (k : String) : String :=
  match toks.find? (·.startsWith (k ++ "=")) with
  | some t => (t.drop (k.length + 1)).toString
  | none => ""

def hexVec (l : List F64) : String := if l.isEmpty then "-" else ",".intercalate (l.map F64.toHex)

def parseCfg (toks : List String) : Cfg :=
  { n := (kv toks "n").toNat?.getD 0
    pop := (kv toks "pop").toInt?.getD 0
    lb := pVec (kv toks "lb"), ub := pVec (kv toks "ub")
    maxeval := (kv toks "maxeval").toInt?.getD 0
    stopval := if kv toks "stopval" == "" then F64.negInf else pF (kv toks "stopval")
    x0 := pVec (kv toks "x0") }

def showRes (r : Res) : String :=
  let mf := match r.minf with | some m => m.toHex | none => "-"
  s!"{r.ret} {r.nevals} {hexVec r.x} {mf} {if r.short then 1 else 0} {if r.malformed then 1 else 0}"

def showBudgets (r : Res) : String :=
  if r.subs.isEmpty then "-" else ",".intercalate (r.subs.map fun p => toString p.1)

/-- what the driver waits for after the events: used by the `next` operation of the protocol -/
def waiting (A : Arith) (c : Cfg) : Phase → St → List Ev → String
  | .loc j _ _, s, [] => match s.pts[j]? with | some p => "sub " ++ hexVec p.x | none => "-"
  | _, _, [] => "eval"
  | ph, s, e :: es =>
    match step A c ph s e with
    | .cont ph' s' => waiting A c ph' s' es
    | _ => "-"

def drvStep (A : Arith) (st : DrvSt) (line : String) : DrvSt × String :=
  let ev (e : Ev) : DrvSt × String := ({ st with revs := e :: st.revs }, "")
  match tokens line with
  | "cfg" :: toks => ({ cfg := some (parseCfg toks), revs := [] }, "")
  | ["eval", x, f, fo] => ev (.eval (pVec x) (pF f) (fo == "1"))
  | ["sub", r, x0, x, f, u, fo] => ev (.sub (r.toInt?.getD 0) (pVec x0) (pVec x) (pF f) (u.toNat?.getD 0) (fo == "1"))
  | ["end"] =>
    match st.cfg with
    | some c => (st, showRes (run A c st.revs.reverse))
    | none => (st, "bad-op")
  | ["budgets"] =>
    match st.cfg with
    | some c => (st, showBudgets (run A c st.revs.reverse))
    | none => (st, "bad-op")
  | ["rpre"] =>
    match st.cfg with
    | some c => (st, (rPrefactor A c).toHex)
    | none => (st, "bad-op")
  | ["next"] =>
    match st.cfg with
    | some c => (st, if popN c < 1 then "-" else waiting A c .init (St.init c) st.revs.reverse)
    | none => (st, "bad-op")
  | _ => (st, "bad-op")

end Nlopt.MlslDrv
