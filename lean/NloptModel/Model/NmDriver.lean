import NloptModel.Model.F64
import NloptModel.Model.Stop
/-!
# Control-flow model of the Nelder-Mead driver (`src/algs/neldermead/nldrmd.c`)

`run A c evs` replays `nldrmd_minimize` (the entry used by `NLOPT_LN_NELDERMEAD`, `src/api/optimize.c`) — or, when
`c.minf0 = some m`, the internal `nldrmd_minimize_` as it is called from Sbplx — on the SEQUENCE OF OBJECTIVE EVALUATIONS
`evs` and decides, statement by statement like the C code, after every evaluation whether the run goes on or returns, with
which code, which `x` and which `*minf`.

## What is an event

    structure Ev   x : List F64   the point handed to the objective (length n)
                   f : F64        the value returned
                   forced : Bool  nlopt_force_stop was raised during THIS evaluation
                   stuck : Bool   INPUT BOOLEAN standing for proposal arithmetic that is not modelled (see below)

The proposal arithmetic (`reflectpt`: reflection / expansion / contraction / shrink coordinates, pinning to the bounds;
the placement of the initial simplex from `xstep`, `lb`, `ub`) is NOT modelled: the evaluated point is part of the event.
The only way this arithmetic influences the control flow is through one boolean per proposal:

* `reflectpt(...)` returns 0 ("the new point coincides with the centroid or with the old point" up to 1e-13 relative):
  the driver returns `NLOPT_XTOL_REACHED` WITHOUT evaluating;
* in the initial simplex, `close(pt[1+i], x[i])`: the driver returns `NLOPT_FAILURE` (-1) WITHOUT evaluating.

Both exits happen BEFORE the evaluation they would have led to, hence there is no event that could carry the boolean "after"
the call.  Every proposal is made after some evaluation (the first one is `f(x0)`), and between two consecutive evaluations
at most one proposal is computed.  Therefore the boolean is attached to the PRECEDING event:

    e.stuck = true   iff   the first proposal computed after evaluation `e` (if the driver gets that far: no stopping test
                           fires before) is degenerate, i.e. `reflectpt` returns 0 resp. `close(..)` holds.

It is read only if the driver actually reaches a proposal after `e`; it is irrelevant otherwise.  In inner mode
(`minf0 = some _`) the very first proposal is not preceded by an event; its boolean is `Cfg.stuck0`.
For `n = 0` (never passed by `nlopt_optimize`, which handles `n = 0` itself) `reflectpt` returns 0 by its own text
(`equalc = equalold = 1`), so the model then ignores the flag and treats every reflection as degenerate.

A harness that only sees the evaluations of a real run sets `stuck = 0` everywhere; if the C run returned 4 (XTOL_REACHED)
or -1 (FAILURE) and the model reports `short = 1` with all events consumed, the C run ended in a degenerate proposal: replay
with `stuck = 1` on the last event (or use `end 1`, see the protocol) and compare again.

## What is modelled exactly

* `nldrmd_minimize`: `*minf = f(x)` (unconditional, `x` untouched), `++nevals`, forced → -5, `*minf < stopval` → 2,
  maxeval → 5, then `nldrmd_minimize_` with `psi = 0`.
* `nldrmd_minimize_`: `*minf < stopval` → 2 before anything; the `n` evaluations of the initial simplex (slot `i+1` after
  slot `i`; a degenerate step → -1 before the evaluation), each followed by `CHECK_EVAL`;
  `CHECK_EVAL(xc, fc)`:  `++nevals`; forced → -5 (the value of the evaluation during which the stop was raised is NOT
  compared with `*minf`); `if (fc <= *minf) { *minf = fc; x = xc; if (*minf < stopval) → 2 }` (the stopval test is made only
  when the incumbent was just replaced); maxeval → 5.  (maxtime is out of scope.)
* the main loop: `low`/`high` = minimum / maximum of the red-black tree under `simplex_compare` (value, then slot address =
  slot index); `init_diam` (recomputed as long as it `== 0`); `psi <= 0 && nlopt_stop_ftol(fl, fh)` → 3; the centroid of
  all slots but `high` in slot order times `ninv = 1.0/n`; `xcur` = centroid + coordinatewise maximal distance over ALL
  slots; `psi > 0`: `diam < psi*init_diam` → 4, otherwise `nlopt_stop_x(c, xcur)` → 4 (a NaN `psi` skips the ftol test and
  takes the `nlopt_stop_x` branch, as in C); the reflection (degenerate → 4), `CHECK_EVAL`;
  `fr < fl`: expansion (degenerate → 4), evaluated IN PLACE of `xh`, `CHECK_EVAL`, `fh >= fr` keeps the reflected point;
  `fr < pred(high)`: accept; else contraction (degenerate → 4), `CHECK_EVAL`, `fc < fr && fc < fh` accepts, otherwise
  shrink: every slot but `low` in slot order (degenerate → 4; evaluation; `CHECK_EVAL`), then `restart`.
  All these quantities are reconstructed from the event coordinates with the `Arith` parameter (`add, sub, mul, div,
  ofInt`), so the ftol/xtol/psi tests are computed, not taken as inputs.  `nlopt_stop_x` reads `stop->n`: the model assumes
  `stop->n = n` (true for `nldrmd_minimize`; Sbplx calls with `psi > 0`, where `nlopt_stop_x` is not used).
* what is in `x` / `*minf` on return: exactly what `CHECK_EVAL` (resp. the wrapper) wrote.

## Not modelled / limitations

* the proposal arithmetic (see above), `xstep`, `lb`, `ub`; `*fdiff` (output for Sbplx only); maxtime; out-of-memory.
* NaN objective values IN THE SIMPLEX.  `simplex_compare` falls through to the address tie-breaker when a value is NaN,
  which is not a transitive order; the shape of the C tree, hence `min`, `max`, `pred(max)`, then depends on the
  insertion/rebalancing history, which is not modelled.  The model's `lowIdx`, `highIdx`, `predHighF` (packed in
  `treeOrd`) are folds with the same comparison function; they coincide with the C tree whenever no simplex value is NaN
  (the comparison is then a strict total order on the `(value, slot)` pairs) and are an arbitrary deterministic choice
  otherwise (a differential test against the C code: 0 mismatches in 1800 random runs without NaN; with a NaN inside the
  simplex a few percent of the runs take a different branch).  The executable model is total anyway.
  To keep the THEOREMS valid for the C code under NaN as well, the three tree answers are a parameter: `runWith O` takes
  an arbitrary oracle `O : Ord` (answers as functions of the history), `run = runWith treeOrd`.  Everything else
  (`CHECK_EVAL`, incumbent, result codes, order of the tests) is exact for NaN, and every theorem of `Props/DrvNm.lean`
  is proved for EVERY `O`: whatever the C tree answers, the C run is `runWith O` for some `O`.
* event points are expected to have length `n`; for other lengths the list operations truncate (the model stays total).

## Line protocol (`nlopt_model nm`)

Tokens are separated by one space; a double is 16 lower-case hex digits of its bits; a vector is a comma-separated list of
doubles, `-` for an empty / absent vector.

    cfg <key>=<value> ...     starts a new run (drops the previous configuration and events); prints nothing.  Keys:
          n=<nat>             dimension (default 0)
          maxeval=<int>       stop->maxeval (default 0 = none)
          nevals0=<int>       *stop->nevals_p on entry (default 0; nlopt_optimize resets it to 0)
          stopval=<hex>       stop->minf_max (default -Inf = fff0000000000000)
          ftol_rel=<hex> ftol_abs=<hex> xtol_rel=<hex>      (default 0)
          xtol_abs=<vec|->    stop->xtol_abs, `-` = NULL (default -)
          xw=<vec|->          stop->x_weights, `-` = NULL (default -)
          x0=<vec>            the caller's x on entry
          minf0=<hex>         ONLY for inner mode: model nldrmd_minimize_ called directly with *minf = minf0 (no f(x0) event)
          psi=<hex>           inner mode only: the psi argument (default 0); ignored in wrapper mode (the wrapper passes 0.0)
          stuck0=<0|1>        inner mode only: the first proposal (initial simplex point 1) is degenerate (default 0)
    ev <xvec> <f> <forced 0|1> [<stuck 0|1>]      appends an event (stuck defaults to 0); prints nothing
    end [<0|1>]               runs the model on the collected events; `end 1` first sets `stuck = 1` on the LAST event.
                              Prints ONE line:   <ret> <nevals> <xvec> <minf hex or -> <short 0|1>
    anything else             prints `bad-op`

`ret` is the nlopt_result code (1..5, -1 FAILURE, -5 FORCED_STOP; 0 when short = 1), `nevals` the number of events consumed
(= evaluations made in this call), `xvec` the content of the caller's x, `minf` the content of `*minf` (`-`: never written,
which happens only for the empty event list in wrapper mode), `short = 1` iff the events ran out before the driver
returned.  The events collected stay in place after `end` (a further `ev` + `end` continues the same run).

Worked example (n = 1, maxeval = 4; f(x0=1.0) = 5.0, initial simplex point 2.0 ↦ 3.0, reflection 3.0 ↦ 4.0 is neither better
than the best nor than pred(high) = low, so contraction, 2.5 ↦ 1.0, maxeval reached at the 4th evaluation):

    cfg n=1 maxeval=4 x0=3ff0000000000000
    ev 3ff0000000000000 4014000000000000 0
    ev 4000000000000000 4008000000000000 0
    ev 4008000000000000 4010000000000000 0
    ev 4004000000000000 3ff0000000000000 0
    end
    → 5 4 4004000000000000 3ff0000000000000 0
-/
namespace Nlopt.NmDrv
open Nlopt

/-- one objective evaluation (see the file header for `stuck`) -/
structure Ev where
  x : List F64
  f : F64
  forced : Bool
  stuck : Bool := false
  deriving DecidableEq, Inhabited

/-- what the control flow reads.  `s` carries `minfMax` (= stopval), `ftolRel/Abs`, `xtolRel/Abs`, `xWeights`, `maxeval`
    and `nevals` (= `*stop->nevals_p` ON ENTRY); its other fields are not read. -/
structure Cfg where
  n : Nat
  s : Stopping
  x0 : List F64
  /-- `none`: the public wrapper `nldrmd_minimize`; `some m`: `nldrmd_minimize_` called directly with `*minf = m` -/
  minf0 : Option F64 := none
  /-- the `psi` argument of `nldrmd_minimize_` (read in inner mode only; the wrapper passes 0.0) -/
  psi : F64 := F64.zero
  /-- inner mode only: the first proposal is degenerate -/
  stuck0 : Bool := false

structure Res where
  ret : Int
  nevals : Nat
  x : List F64
  minf : Option F64
  short : Bool
  deriving DecidableEq, Inhabited

/-- one slot of the `pts` array: `pt[0]` and `pt+1` -/
structure Pt where
  f : F64
  x : List F64
  deriving DecidableEq, Inhabited

/-- where the driver is waiting for the next evaluation -/
inductive Phase
  /-- `nldrmd_minimize`: `*minf = f(n, x, NULL, f_data)` -/
  | first
  /-- initial simplex: slot `i` (1 ≤ i ≤ n) is being evaluated -/
  | init (i : Nat)
  /-- `fr = f(n, xcur, ...)` after the reflection; `lo`, `hi` = slots of `low`, `high` -/
  | reflect (lo hi : Nat)
  /-- `fh = f(n, xh, ...)` after the expansion; `fr`, `xr` = the reflected point (still in `xcur`) -/
  | expand (hi : Nat) (fr : F64) (xr : List F64)
  /-- `fc = f(n, xcur, ...)` after the contraction -/
  | contract (lo hi : Nat) (fr : F64)
  /-- shrink: slot `i ≠ lo` is being evaluated -/
  | shrink (lo i : Nat)
  deriving DecidableEq, Inhabited

structure St where
  /-- evaluations made so far in this call -/
  nev : Nat
  /-- the caller's `x` -/
  x : List F64
  /-- `*minf` (meaningful once `wr`) -/
  minf : F64
  /-- `*minf` has been written -/
  wr : Bool
  /-- the slots of `pts` assigned so far (all `n+1` once the initial simplex is complete) -/
  pts : List Pt
  initDiam : F64
  ph : Phase
  /-- the events consumed so far, newest first (read by the order oracle only) -/
  hist : List Ev
  deriving DecidableEq, Inhabited

inductive Out
  | cont (st : St)
  | done (r : Res)
  deriving DecidableEq, Inhabited

def St.minfOpt (st : St) : Option F64 := if st.wr then some st.minf else none

/-- `ret = code; goto done` -/
def fin (code : Int) (st : St) : Out := .done ⟨code, st.nev, st.x, st.minfOpt, false⟩

/-- the events ran out while the driver was waiting in state `st` -/
def St.shortRes (st : St) : Res := ⟨0, st.nev, st.x, st.minfOpt, true⟩

def Out.res : Out → Res
  | .done r => r
  | .cont st => st.shortRes

/-! ## the red-black tree order -/

/-- `simplex_compare(k1, k2) < 0` for `k1 = (f1, slot i1)`, `k2 = (f2, slot i2)` -/
def keyLt (f1 : F64) (i1 : Nat) (f2 : F64) (i2 : Nat) : Bool :=
  if F64.lt f1 f2 then true else if F64.gt f1 f2 then false else decide (i1 < i2)

/-- scan: current best `(bf, bi)`, replaced by a later slot that is `better` -/
def bestAux (better : F64 → Nat → F64 → Nat → Bool) : List F64 → Nat → F64 → Nat → Nat
  | [], _, _, bi => bi
  | f :: fs, i, bf, bi =>
    if better f i bf bi then bestAux better fs (i + 1) f i else bestAux better fs (i + 1) bf bi

/-- slot of `nlopt_rb_tree_min` -/
def lowIdx : List F64 → Nat
  | [] => 0
  | f :: fs => bestAux keyLt fs 1 f 0

/-- slot of `nlopt_rb_tree_max` -/
def highIdx : List F64 → Nat
  | [] => 0
  | f :: fs => bestAux (fun f i bf bi => keyLt bf bi f i) fs 1 f 0

def predAux (hi : Nat) : List F64 → Nat → Option (F64 × Nat) → Option (F64 × Nat)
  | [], _, b => b
  | f :: fs, i, b =>
    if i = hi then predAux hi fs (i + 1) b
    else match b with
      | none => predAux hi fs (i + 1) (some (f, i))
      | some (bf, bi) => if keyLt bf bi f i then predAux hi fs (i + 1) (some (f, i)) else predAux hi fs (i + 1) (some (bf, bi))

/-- `nlopt_rb_tree_pred(high)->k[0]`: the largest key among the slots other than `hi` (NaN if there is none: only n = 0,
    where the call is never reached) -/
def predHighF (fs : List F64) (hi : Nat) : F64 :=
  match predAux hi fs 0 none with
  | some (f, _) => f
  | none => F64.qnan

/-- The answers of the red-black tree, as a parameter: slot of `nlopt_rb_tree_min`, slot of `nlopt_rb_tree_max`, value of
    `nlopt_rb_tree_pred(high)`, each as a function of the HISTORY (all events consumed so far, newest first) and of the
    current simplex values (slot order).  `treeOrd` is the order of `simplex_compare`, which is what the C tree implements
    whenever no simplex value is NaN.  With NaN values the C answers depend on the insertion history; they are still SOME
    function of the history, i.e. the C run is `runWith O` for some `O` — the theorems of `Props/DrvNm.lean` are proved for
    EVERY `O`, hence cover NaN runs of the C code as well. -/
structure Ord where
  low : List Ev → List F64 → Nat
  high : List Ev → List F64 → Nat
  pred : List Ev → List F64 → Nat → F64

/-- the order of `simplex_compare` (value, then slot) -/
def treeOrd : Ord := ⟨fun _ fs => lowIdx fs, fun _ fs => highIdx fs, fun _ fs hi => predHighF fs hi⟩

/-! ## quantities of the loop head -/

/-- `for (i...) acc += fabs(a[i] - b[i])` -/
def l1Acc (A : Arith) (acc : F64) (a b : List F64) : F64 :=
  (List.zip a b).foldl (fun r p => A.add r (A.sub p.1 p.2).abs) acc

/-- sum of the slots other than `hi`, in slot order, starting from the zero vector (`i` = slot of the head of the list) -/
def centroidSum (A : Arith) (hi : Nat) : List Pt → Nat → List F64 → List F64
  | [], _, c => c
  | p :: ps, i, c => centroidSum A hi ps (i + 1) (if i = hi then c else List.zipWith A.add c p.x)

/-- `c[i] *= ninv` with `ninv = 1.0 / n` -/
def centroid (A : Arith) (n : Nat) (pts : List Pt) (hi : Nat) : List F64 :=
  let ninv := A.div F64.one (A.ofInt n)
  (centroidSum A hi pts 0 (List.replicate n F64.zero)).map fun v => A.mul v ninv

/-- `xcur` of the x convergence check: coordinatewise maximal `fabs(xi[j] - c[j])` over all slots, plus `c` -/
def radiusPt (A : Arith) (n : Nat) (pts : List Pt) (c : List F64) : List F64 :=
  let r := pts.foldl (fun r p =>
    List.zipWith (fun rj (q : F64 × F64) => let dx := (A.sub q.1 q.2).abs; if F64.gt dx rj then dx else rj) r (List.zip p.x c))
    (List.replicate n F64.zero)
  List.zipWith A.add r c

def ptAt (pts : List Pt) (i : Nat) : Pt := pts.getD i ⟨F64.qnan, []⟩

/-- the `psi` in force: the wrapper passes 0.0 -/
def Cfg.effPsi (c : Cfg) : F64 := match c.minf0 with | none => F64.zero | some _ => c.psi

/-- `nlopt_stop_evals` after `k` evaluations of this call -/
def Cfg.evalsStop (c : Cfg) (k : Nat) : Bool := Stop.evals c.s.maxeval (c.s.nevals + (k : Int))

/-- From `restart:` / the head of `while (1)` to the evaluation of the reflected point.  `stuck`: the reflection is
    degenerate (flag of the last event). -/
def loopHead (O : Ord) (A : Arith) (c : Cfg) (st : St) (stuck : Bool) : Out :=
  let fs := st.pts.map (·.f)
  let lo := O.low st.hist fs
  let hi := O.high st.hist fs
  let pl := ptAt st.pts lo
  let ph := ptAt st.pts hi
  let idm := if F64.feq st.initDiam F64.zero then l1Acc A st.initDiam pl.x ph.x else st.initDiam
  let st := { st with initDiam := idm }
  let psi := c.effPsi
  if F64.le psi F64.zero && Stop.ftol A c.s pl.f ph.f then fin 3 st
  else
    let cen := centroid A c.n st.pts hi
    let xcur := radiusPt A c.n st.pts cen
    let xstop :=
      if F64.gt psi F64.zero then F64.lt (l1Acc A F64.zero pl.x ph.x) (A.mul psi idm)
      else Stop.x A c.s cen xcur
    if xstop then fin 4 st
    else if stuck || c.n == 0 then fin 4 st          -- `if (!reflectpt(n, xcur, c, alpha, xh, lb, ub))`
    else .cont { st with ph := .reflect lo hi }

/-- the body of `nldrmd_minimize_` up to the first evaluation; `st.x`, `st.minf` = the arguments `x`, `*minf` -/
def enter (O : Ord) (A : Arith) (c : Cfg) (st : St) (stuck : Bool) : Out :=
  let st := { st with pts := [⟨st.minf, st.x⟩], initDiam := F64.zero }
  if F64.lt st.minf c.s.minfMax then fin 2 st
  else if c.n = 0 then loopHead O A c st stuck
  else if stuck then fin (-1) st                      -- `close(pt[1+i], x[i])`: NLOPT_FAILURE
  else .cont { st with ph := .init 1 }

/-! ## CHECK_EVAL -/

/-- the state after `++nevals` and the incumbent update of `CHECK_EVAL` -/
def record (st : St) (e : Ev) : St :=
  if !e.forced && F64.le e.f st.minf then { st with nev := st.nev + 1, minf := e.f, x := e.x, hist := e :: st.hist }
  else { st with nev := st.nev + 1, hist := e :: st.hist }

/-- the `goto done` of `CHECK_EVAL`, if any (`st` = the state BEFORE the evaluation) -/
def verdict (c : Cfg) (st : St) (e : Ev) : Option Int :=
  if e.forced then some (-5)
  else if F64.le e.f st.minf && F64.lt e.f c.s.minfMax then some 2
  else if c.evalsStop (st.nev + 1) then some 5
  else none

/-- first slot `k ≥ j`, `k ≤ n`, `k ≠ lo` (the shrink loop) -/
def nextSlot (lo j n : Nat) : Option Nat :=
  if j = lo then (if j + 1 ≤ n then some (j + 1) else none)
  else if j ≤ n then some j else none

/-- what follows a `CHECK_EVAL` that did not return, up to the next evaluation (`st` = state after `record`) -/
def post (O : Ord) (A : Arith) (c : Cfg) (st : St) (e : Ev) : Out :=
  match st.ph with
  | .first => fin 4 st                                            -- not reached (`step` handles `.first` itself)
  | .init i =>
    let st := { st with pts := st.pts ++ [⟨e.f, e.x⟩] }
    if i < c.n then
      if e.stuck then fin (-1) st else .cont { st with ph := .init (i + 1) }
    else loopHead O A c st e.stuck
  | .reflect lo hi =>
    let fl := (ptAt st.pts lo).f
    if F64.lt e.f fl then                                          -- new best point, expand simplex
      if e.stuck then fin 4 st else .cont { st with ph := .expand hi e.f e.x }
    else if F64.lt e.f (O.pred st.hist (st.pts.map (·.f)) hi) then      -- accept new point
      loopHead O A c { st with pts := st.pts.set hi ⟨e.f, e.x⟩ } e.stuck
    else                                                            -- new worst point, contract
      if e.stuck then fin 4 st else .cont { st with ph := .contract lo hi e.f }
  | .expand hi fr xr =>
    let p : Pt := if F64.ge e.f fr then ⟨fr, xr⟩ else ⟨e.f, e.x⟩   -- expanding didn't improve
    loopHead O A c { st with pts := st.pts.set hi p } e.stuck
  | .contract lo hi fr =>
    let fh := (ptAt st.pts hi).f
    if F64.lt e.f fr && F64.lt e.f fh then                          -- successful contraction
      loopHead O A c { st with pts := st.pts.set hi ⟨e.f, e.x⟩ } e.stuck
    else                                                            -- failed contraction, shrink simplex
      match nextSlot lo 0 c.n with
      | some j => if e.stuck then fin 4 st else .cont { st with ph := .shrink lo j }
      | none => loopHead O A c st e.stuck
  | .shrink lo i =>
    let st := { st with pts := st.pts.set i ⟨e.f, e.x⟩ }
    match nextSlot lo (i + 1) c.n with
    | some j => if e.stuck then fin 4 st else .cont { st with ph := .shrink lo j }
    | none => loopHead O A c st e.stuck

/-- one evaluation -/
def step (O : Ord) (A : Arith) (c : Cfg) (st : St) (e : Ev) : Out :=
  match st.ph with
  | .first =>
    -- *minf = f(n, x, NULL, f_data); ++nevals; forced; *minf < minf_max; evals
    let st1 := { st with nev := st.nev + 1, minf := e.f, wr := true, hist := e :: st.hist }
    if e.forced then fin (-5) st1
    else if F64.lt e.f c.s.minfMax then fin 2 st1
    else if c.evalsStop (st.nev + 1) then fin 5 st1
    else enter O A c st1 e.stuck
  | _ =>
    match verdict c st e with
    | some r => fin r (record st e)
    | none => post O A c (record st e) e

/-- the state on entry (or the result, if the driver returns before the first evaluation) -/
def start (O : Ord) (A : Arith) (c : Cfg) : Out :=
  match c.minf0 with
  | none => .cont ⟨0, c.x0, F64.posInf, false, [], F64.zero, .first, []⟩
  | some m => enter O A c ⟨0, c.x0, m, true, [], F64.zero, .init 1, []⟩ c.stuck0

def go (O : Ord) (A : Arith) (c : Cfg) : St → List Ev → Out
  | st, [] => .cont st
  | st, e :: es =>
    match step O A c st e with
    | .done r => .done r
    | .cont st' => go O A c st' es

def runOut (O : Ord) (A : Arith) (c : Cfg) (evs : List Ev) : Out :=
  match start O A c with
  | .done r => .done r
  | .cont st => go O A c st evs

/-- the run with an arbitrary tree-order oracle -/
def runWith (O : Ord) (A : Arith) (c : Cfg) (evs : List Ev) : Res := (runOut O A c evs).res

/-- THE model: the run with the order of `simplex_compare` -/
def run (A : Arith) (c : Cfg) (evs : List Ev) : Res := runWith treeOrd A c evs

/-! ## line protocol -/

structure DrvSt where
  cfg : Cfg := { n := 0, s := default, x0 := [] }
  /-- events, newest first -/
  revs : List Ev := []

def parseVec (t : String) : List F64 :=
  if t == "-" || t == "" then [] else (t.splitOn ",").map fun h => (F64.ofHex? h).getD F64.zero

def parseOptVec (t : String) : Option (List F64) :=
  if t == "-" || t == "" then none else some (parseVec t)

def showVec (l : List F64) : String := if l.isEmpty then "-" else ",".intercalate (l.map F64.toHex)

def kv (toks : List String) (k : String) : String :=
  match toks.find? (·.startsWith (k ++ "=")) with
  | some t => (t.drop (k.length + 1)).toString
  | none => ""

def parseCfg (toks : List String) : Cfg :=
  let hx (k : String) (d : F64) : F64 := (F64.ofHex? (kv toks k)).getD d
  { n := (kv toks "n").toNat?.getD 0
    s := { n := (kv toks "n").toNat?.getD 0, minfMax := hx "stopval" F64.negInf,
           ftolRel := hx "ftol_rel" F64.zero, ftolAbs := hx "ftol_abs" F64.zero, xtolRel := hx "xtol_rel" F64.zero,
           xtolAbs := parseOptVec (kv toks "xtol_abs"), xWeights := parseOptVec (kv toks "xw"),
           nevals := (kv toks "nevals0").toInt?.getD 0, maxeval := (kv toks "maxeval").toInt?.getD 0,
           maxtime := F64.zero, start := F64.zero, forceStop := 0 }
    x0 := parseVec (kv toks "x0")
    minf0 := F64.ofHex? (kv toks "minf0")
    psi := hx "psi" F64.zero
    stuck0 := kv toks "stuck0" == "1" }

def showRes (r : Res) : String :=
  let m := match r.minf with | some v => v.toHex | none => "-"
  s!"{r.ret} {r.nevals} {showVec r.x} {m} {if r.short then 1 else 0}"

def markLast : List Ev → List Ev
  | [] => []
  | e :: es => { e with stuck := true } :: es

def drvStep (A : Arith) (st : DrvSt) (line : String) : DrvSt × String :=
  match (line.trimAscii.toString.splitOn " ").filter (· ≠ "") with
  | "cfg" :: rest => ({ cfg := parseCfg rest, revs := [] }, "")
  | ["ev", x, f, fo] =>
    ({ st with revs := ⟨parseVec x, (F64.ofHex? f).getD F64.zero, fo == "1", false⟩ :: st.revs }, "")
  | ["ev", x, f, fo, sk] =>
    ({ st with revs := ⟨parseVec x, (F64.ofHex? f).getD F64.zero, fo == "1", sk == "1"⟩ :: st.revs }, "")
  | ["end"] => (st, showRes (run A st.cfg st.revs.reverse))
  | ["end", b] =>
    let st' := if b == "1" then { st with revs := markLast st.revs } else st
    (st', showRes (run A st'.cfg st'.revs.reverse))
  | _ => (st, "bad-op")

end Nlopt.NmDrv
