import NloptModel.Lemmas.ApiView
import NloptModel.Model.Run
/-!
  Model of the wrapper layers of `src/api/optimize.c`: `nlopt_optimize` (maximize flip `f_max`,
  memoization `memoize_func`, dimension elimination `elimdim_*`, the `done:` epilogue) and the
  algorithm-independent part of `nlopt_optimize_` (n = 0 shortcut, bound validation, finite-domain and
  local-optimizer checks, counter reset), for an ARBITRARY algorithm machine.

  The object is represented by its `CoreView` (everything `nlopt_optimize` reads).  Memory allocation
  inside `nlopt_optimize` is not modelled.
-/
namespace Nlopt

def rFAILURE : Int := -1
def rFORCED : Int := -5

/-- C `lb[i] == ub[i]` -/
def fixedAt (l u : F64) : Bool := F64.feq l u

/-- `elimdim_dimension` -/
def elimDimension : List F64 → List F64 → Nat
  | l :: lb, u :: ub => (if fixedAt l u then 0 else 1) + elimDimension lb ub
  | _, _ => 0

/-- `elimdim_shrink` (as a function): keep the entries of the free coordinates -/
def shrink {α : Type} : List F64 → List F64 → List α → List α
  | l :: lb, u :: ub, v :: vs => if fixedAt l u then shrink lb ub vs else v :: shrink lb ub vs
  | _, _, _ => []

/-- the scatter of `elimdim_func` / `elimdim_expand`: fixed coordinates are WRITTEN from `lb`,
    free ones are taken from the reduced vector in order -/
def expand : List F64 → List F64 → List F64 → List F64
  | l :: lb, u :: ub, xs =>
    if fixedAt l u then l :: expand lb ub xs
    else match xs with
      | x :: xs' => x :: expand lb ub xs'
      | [] => l :: expand lb ub []          -- unreachable when |xs| = elimDimension
  | _, _, _ => []

/-- the problem as the algorithm receives it: the (possibly reduced) object and starting point -/
structure Prob where
  v : CoreView
  x0 : List F64
  deriving DecidableEq

/-- capability lists regenerated from the C source (Generated/AlgLists.lean) -/
structure WrapCaps where
  elimAlgs : List Nat
  memoAlgs : List Nat
  finiteAlgs : List Nat
  needLocal : List Nat        -- G_MLSL, G_MLSL_LDS, AUGLAG, AUGLAG_EQ: local optimizer must be given
  deriving Inhabited

structure MemoSt where
  minf : F64 := F64.dblMax
  bestx : Option (List F64) := none
  deriving DecidableEq, Inhabited

/-- static configuration of the wrapper stack for one call -/
structure Layers where
  maximize : Bool
  memo : Bool
  elim : Bool
  lb : List F64          -- full-length bounds of the user's object
  ub : List F64
  fcVec : List Bool      -- which inequality / equality constraints are vector valued
  hVec : List Bool
  deriving DecidableEq, Inhabited

def Layers.isVec (L : Layers) : FnRef → Bool
  | .obj => false
  | .ineq i => L.fcVec.getD i false
  | .eq i => L.hVec.getD i false

/-- algorithm-level query → what the user's callback receives -/
def Layers.userQuery (L : Layers) (q : Query) : Query :=
  { fn := q.fn,
    x := if L.elim then expand L.lb L.ub q.x else q.x,
    -- elimdim_mfunc passes NULL for the gradient unconditionally
    wantGrad := if L.elim && L.isVec q.fn then false else q.wantGrad }

/-- `memoize_func`'s feasibility test: no coordinate below lb or above ub (NaN passes, as in C) -/
def memoFeasible (lb ub x : List F64) : Bool :=
  (List.zip x (List.zip lb ub)).all fun p => !(F64.lt p.1 p.2.1) && !(F64.gt p.1 p.2.2)

/-- user's answer → what the algorithm gets back, and the memo update -/
def Layers.algAnswer (L : Layers) (m : MemoSt) (uq : Query) (a : Answer) : MemoSt × Answer :=
  match uq.fn with
  | .obj =>
    -- f_max
    let v1 := if L.maximize then a.val.map F64.neg else a.val
    let g1 := if L.maximize then a.grad.map (·.map F64.neg) else a.grad
    -- memoize_func (sits above f_max)
    let m' := if L.memo then
        match v1 with
        | [val] => if memoFeasible L.lb L.ub uq.x && F64.lt val m.minf then { minf := val, bestx := some uq.x } else m
        | _ => m
      else m
    -- elimdim_func gathers the gradient of the free coordinates
    let g2 := if L.elim then g1.map (shrink L.lb L.ub) else g1
    (m', { val := v1, grad := g2, stop := a.stop })
  | _ =>
    let g2 := if L.elim && !L.isVec uq.fn then a.grad.map (shrink L.lb L.ub) else a.grad
    (m, { val := a.val, grad := g2, stop := a.stop })

/-- the user's callbacks with a record of every invocation -/
def traced {σ : Type} (U : Env σ) : Env (σ × List (Query × Answer)) :=
  { call := fun st q => let r := U.call st.1 q; ((r.1, st.2 ++ [(q, r.2)]), r.2) }

/-- the environment the algorithm runs in: user callbacks behind the wrapper stack -/
def wrappedEnv {σ : Type} (L : Layers) (U : Env σ) : Env ((σ × List (Query × Answer)) × MemoSt) :=
  { call := fun st q =>
      let uq := L.userQuery q
      let r := (traced U).call st.1 uq
      let ma := L.algAnswer st.2 uq r.2
      ((r.1, ma.1), ma.2) }

/-- `finite_domain` -/
def finiteDomain (A : Arith) (lb ub : List F64) : Bool :=
  (List.zip lb ub).all fun p => !(A.sub p.2 p.1).isInf

/-- the bound check of `nlopt_optimize_` -/
def boundsFail (lb ub x : List F64) : Bool :=
  (List.zip x (List.zip lb ub)).any fun p => F64.gt p.2.1 p.2.2 || F64.lt p.1 p.2.1 || F64.gt p.1 p.2.2

def optV (o : Option (List F64)) : List F64 := o.getD []

structure InnerOut where
  ret : Int
  x : List F64
  minf : F64
  numevals : Int
  atrace : List (Query × Answer) := []     -- the algorithm's own view: its queries and the answers it got
  deriving DecidableEq, Inhabited

/-- `nlopt_optimize_` up to the dispatch and the run of the algorithm.
    `minf0` = previous content of `*minf`; `hasLocal` = a local optimizer is set.
    Returns the inner result (none = the algorithm is still running when the fuel ran out), the
    environment state and whether the algorithm was started at all. -/
def optimizeInner {σ : Type} (A : Arith) (caps : WrapCaps) (E : Env σ) (mk : Prob → Alg) (fuel : Nat)
    (v : CoreView) (hasLocal : Bool) (x : List F64) (minf0 : F64) (st : σ) : Option InnerOut × σ × Bool :=
  if v.n = 0 then
    -- trivial case: one evaluation, counter set (after the fix of the stale counter);
    -- `return opt->force_stop ? NLOPT_FORCED_STOP : NLOPT_SUCCESS;` -- the objective may have called
    -- nlopt_force_stop (the flag was reset to 0 at the entry of nlopt_optimize)
    let r := E.call st { fn := .obj, x := x, wantGrad := false }
    (some { ret := (match r.2.stop with | some s => if s ≠ 0 then rFORCED else rSUCCESS | none => rSUCCESS), x := x, minf := r.2.val.headD minf0, numevals := 1,
            atrace := [({ fn := .obj, x := x, wantGrad := false }, r.2)] }, r.1, false)
  else if boundsFail (optV v.lb) (optV v.ub) x then
    (some { ret := rINVALID, x := x, minf := F64.posInf, numevals := v.numevals }, st, false)
  else if caps.finiteAlgs.contains v.algorithm && !finiteDomain A (optV v.lb) (optV v.ub) then
    (some { ret := rINVALID, x := x, minf := F64.posInf, numevals := 0 }, st, false)
  else if caps.needLocal.contains v.algorithm && !hasLocal then
    (some { ret := rINVALID, x := x, minf := F64.posInf, numevals := 0 }, st, false)
  else
    -- the algorithm never looks at the hook fields; they are normalised so that equal problems are equal values
    let r := run (mk { v := { v with numevals := 0, mungeD := false, mungeC := false }, x0 := x }) E fuel st
    (r.1.map fun a => { ret := a.ret, x := a.x, minf := a.minf, numevals := a.numevals, atrace := r.2.2 }, r.2.1, true)

structure OptOut where
  ret : Int
  x : List F64
  optf : F64
  after : CoreView                       -- the object as the getters see it afterwards
  utrace : List (Query × Answer)         -- every user callback invocation, in order
  atrace : List (Query × Answer) := []   -- the algorithm's view of the same calls
  deriving DecidableEq

/-- the object handed to `nlopt_optimize_` -/
def innerView (v : CoreView) (maximize elim : Bool) : CoreView :=
  let v := { v with forceStop := 0 }
  let v := if maximize then { v with stopval := v.stopval.neg, maximize := false } else v
  if elim then
    let lb := optV v.lb
    let ub := optV v.ub
    { v with n := elimDimension lb ub,
             lb := v.lb.map (shrink lb ub), ub := v.ub.map (shrink lb ub),
             xtolAbs := v.xtolAbs.map (shrink lb ub), xWeights := v.xWeights.map (shrink lb ub),
             dx := v.dx.map (shrink lb ub), mungeD := false, mungeC := false }
  else v

def layersOf (caps : WrapCaps) (v : CoreView) : Layers :=
  let lb := optV v.lb
  let ub := optV v.ub
  { maximize := v.maximize,
    memo := caps.memoAlgs.contains v.algorithm && v.fc.isEmpty && v.h.isEmpty,
    elim := caps.elimAlgs.contains v.algorithm && elimDimension lb ub != v.n,
    lb := lb, ub := ub, fcVec := v.fc.map (·.isVec), hVec := v.h.map (·.isVec) }

/-- the force-stop value the object holds after the run: the last value a callback set, else 0 (reset at entry) -/
def lastStop (tr : List (Query × Answer)) : Int :=
  tr.foldl (fun acc p => match p.2.stop with | some v => v | none => acc) 0

/-- the fixed coordinates of the start are validated before they are eliminated -/
def fixedCoordFail (lb ub x : List F64) : Bool :=
  (List.zip x (List.zip lb ub)).any fun p => fixedAt p.2.1 p.2.2 && (F64.lt p.1 p.2.1 || F64.gt p.1 p.2.2)

/-- `nlopt_optimize(opt, x, opt_f)` for an arbitrary algorithm.  `optf0` is the previous content of `*opt_f`.
    `none` = still running when the fuel ran out. -/
def optimize {σ : Type} (A : Arith) (caps : WrapCaps) (U : Env σ) (mk : Prob → Alg) (fuel : Nat)
    (v : CoreView) (hasLocal : Bool) (x : List F64) (optf0 : F64) (st : σ) : Option OptOut × σ :=
  if v.f = 0 then
    (some { ret := rINVALID, x := x, optf := optf0, after := v, utrace := [] }, st)
  else
    let L := layersOf caps v
    let v0 := { v with forceStop := 0 }
    if L.elim && fixedCoordFail L.lb L.ub x then
      (some { ret := rINVALID, x := x, optf := optf0, after := v0, utrace := [] }, st)
    else
      let vin := innerView v L.maximize L.elim
      let xin := if L.elim then shrink L.lb L.ub x else x
      let r := optimizeInner A caps (wrappedEnv L U) mk fuel vin hasLocal xin optf0 ((st, []), ({} : MemoSt))
      match r.1 with
      | none => (none, r.2.1.1.1)
      | some io =>
        let memo := r.2.1.2
        -- back to the user's object: evaluation count, expanded point
        let x1 := if L.elim then expand L.lb L.ub io.x else io.x
        -- done: copy back the memoized best point, if any was recorded
        let (x2, f2) := if L.memo && F64.lt memo.minf F64.dblMax then (memo.bestx.getD x1, memo.minf) else (x1, io.minf)
        -- restore the maximization settings and the sign
        let f3 := if L.maximize then f2.neg else f2
        let after := { v0 with numevals := io.numevals, forceStop := lastStop r.2.1.1.2,
                               stopval := if L.maximize then v.stopval.neg.neg else v.stopval }
        (some { ret := io.ret, x := x2, optf := f3, after := after, utrace := r.2.1.1.2, atrace := io.atrace }, r.2.1.1.1)

end Nlopt
