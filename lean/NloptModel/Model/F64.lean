/-
  F64: IEEE-754 binary64 *as a bit pattern*.

  Classification, sign, negation, absolute value and the IEEE comparisons are DEFINED on the
  bit pattern, hence fully available to proofs.  Rounded arithmetic is not defined here: it is
  passed to every model function as an explicit `Arith` record (see below); theorems quantify
  over every `Arith`, the executable driver instantiates it with the hardware operations
  through `Float.ofBits/toBits` (Main.lean), which on this machine are the operations the C
  code uses.
-/
namespace Nlopt

structure F64 where
  bits : UInt64
  deriving DecidableEq, Inhabited

namespace F64

def ofNatBits (n : Nat) : F64 := ⟨UInt64.ofNat n⟩

/-- magnitude field (63 low bits) -/
def mag (a : F64) : Nat := a.bits.toNat % 9223372036854775808
/-- sign bit -/
def sign (a : F64) : Bool := decide (9223372036854775808 ≤ a.bits.toNat)

def infMag : Nat := 0x7FF0000000000000
def minNormalMag : Nat := 0x0010000000000000

def isNaN (a : F64) : Bool := decide (infMag < a.mag)
def isInf (a : F64) : Bool := decide (a.mag = infMag)
def isFinite (a : F64) : Bool := decide (a.mag < infMag)
def isZero (a : F64) : Bool := decide (a.mag = 0)
/-- nlopt_istiny: zero or subnormal -/
def isTiny (a : F64) : Bool := decide (a.mag < minNormalMag)

/-- sign-magnitude key: order-isomorphic to the real value on non-NaN patterns (-0 = +0) -/
def key (a : F64) : Int := if a.sign then -(a.mag : Int) else (a.mag : Int)

def lt (a b : F64) : Bool := !a.isNaN && !b.isNaN && decide (a.key < b.key)
def le (a b : F64) : Bool := !a.isNaN && !b.isNaN && decide (a.key ≤ b.key)
def gt (a b : F64) : Bool := lt b a
def ge (a b : F64) : Bool := le b a
/-- IEEE `==` -/
def feq (a b : F64) : Bool := !a.isNaN && !b.isNaN && decide (a.key = b.key)
/-- IEEE `!=` -/
def fne (a b : F64) : Bool := !(feq a b)

/-- sign-bit flip (C unary minus on a double), written arithmetically so that `omega` sees it -/
def neg (a : F64) : F64 :=
  ⟨UInt64.ofNat (if a.bits.toNat < 9223372036854775808 then a.bits.toNat + 9223372036854775808
                 else a.bits.toNat - 9223372036854775808)⟩
/-- sign-bit clear (C `fabs`) -/
def abs (a : F64) : F64 := ⟨UInt64.ofNat (a.bits.toNat % 9223372036854775808)⟩

def zero : F64 := ⟨0⟩
def one : F64 := ⟨0x3FF0000000000000⟩
def negOne : F64 := ⟨0xBFF0000000000000⟩
def posInf : F64 := ⟨0x7FF0000000000000⟩
def negInf : F64 := ⟨0xFFF0000000000000⟩
def dblMax : F64 := ⟨0x7FEFFFFFFFFFFFFF⟩
def qnan : F64 := ⟨0x7FF8000000000000⟩

/-- C `x < lo ? lo : (x > hi ? hi : x)`-style clamp used throughout NLopt's glue code. -/
def clamp (lo hi x : F64) : F64 := if lt x lo then lo else if gt x hi then hi else x

/-- `MIN(MAX(lo, x), hi)` with the C macros `MAX(a,b) = a > b ? a : b`, `MIN(a,b) = a < b ? a : b`. -/
def cmax (a b : F64) : F64 := if gt a b then a else b
def cmin (a b : F64) : F64 := if lt a b then a else b

/-- coordinatewise "lb ≤ x ≤ ub", the property-level box predicate (false on NaN) -/
def inBox1 (lo hi x : F64) : Bool := le lo x && le x hi

end F64

/-- Rounded arithmetic and libm, as an explicit parameter. -/
structure Arith where
  add : F64 → F64 → F64
  sub : F64 → F64 → F64
  mul : F64 → F64 → F64
  div : F64 → F64 → F64
  sqrt : F64 → F64
  tanh : F64 → F64
  atanh : F64 → F64
  pow : F64 → F64 → F64
  log : F64 → F64
  exp : F64 → F64
  ofInt : Int → F64
  /-- C conversion `(int) d` for in-range finite `d`; out of range is flagged by the caller -/
  toInt : F64 → Int

/-- hex encoding used by the line protocol: 16 lower-case hex digits -/
def hexDigit (n : Nat) : Char :=
  if n < 10 then Char.ofNat (48 + n) else Char.ofNat (87 + n)

def F64.toHex (a : F64) : String :=
  let n := a.bits.toNat
  String.ofList ((List.range 16).map fun i => hexDigit ((n / 16 ^ (15 - i)) % 16))

def hexVal (c : Char) : Option Nat :=
  if '0' ≤ c ∧ c ≤ '9' then some (c.toNat - 48)
  else if 'a' ≤ c ∧ c ≤ 'f' then some (c.toNat - 87)
  else if 'A' ≤ c ∧ c ≤ 'F' then some (c.toNat - 55)
  else none

def F64.ofHex? (s : String) : Option F64 :=
  if s.length ≠ 16 then none else
  (s.toList.foldl (fun acc c => match acc, hexVal c with
      | some a, some v => some (a * 16 + v)
      | _, _ => none) (some 0)).map F64.ofNatBits

end Nlopt
