import NloptModel.Model.Run
import NloptModel.Model.CrsDriver
import NloptModel.Model.EschAlg
/-!
# The CRS driver (`crs_minimize`) as an algorithm machine (`Alg`)

`Model/CrsDriver.lean` is a control-flow model that CONSUMES a list of evaluations; `Model/Run.lean` / `Model/Wrap.lean`
talk about machines that ISSUE queries to an environment (the user's callbacks behind the wrapper stack of
`nlopt_optimize`).  `CrsAlg.mk A S P c` is the bridge: the `CrsDrv` state machine, driven by the answers of the
environment, with the points supplied by a proposer `P`.

* `A : Arith` is the rounded arithmetic read by `nlopt_stop_f` / `nlopt_stop_x`; `S : CrsDrv.Sel` is how the red-black
  tree answers its min / max queries (`CrsDrv.scan` for a consistently ordered tree).  Both are PARAMETERS of the machine,
  exactly as they are parameters of `CrsDrv.runWith`: the `CrsDrv` events do not carry the tree's answers.
* `c.invalid` (`N < n + 1`): the machine returns `NLOPT_INVALID_ARGS` without issuing any query.
* The first point is the caller's `x` (`c.x0`): `memcpy(d.ps + 1, x, n)` in `crs_init`.
* Every later point comes from `P`, an ARBITRARY state machine (arbitrary state type) that is shown the driver state
  after the bookkeeping of the evaluation just made (this contains the whole population, hence everything the tree
  could answer), the point just evaluated and the complete answer; this stands for the Sobol / Mersenne-Twister draws of
  the initial population, `random_trial` (reflection arithmetic, clamping to the bounds) and the local mutation, none
  of which is modelled.
* Every query is `{ fn := .obj, x := point, wantGrad := false }` (`f(n, x, NULL, f_data)`).
* After an answer the machine does exactly `CrsDrv.step A S c`; if it is `.done r` the machine returns the `AlgResult`
  dictated by `r`: `ret`, `x`, `minf := r.minf.getD +Inf` (what the memory cell `*minf` holds: `nlopt_optimize_` stores
  `HUGE_VAL` in it before the dispatch, and `r.minf = none` means the driver never wrote it), `numevals := nevals`.

`valOf`, `forcedOf`, `qOf` (value of an answer, `nlopt_stop_forced` after an answer, the shape of a query) are those of
`Model/EschAlg.lean`; see there for the discussion of the force-stop flag.
-/
namespace Nlopt.CrsAlg
open Nlopt Nlopt.CrsDrv
open Nlopt.EschAlg (valOf forcedOf qOf)

/-- the `CrsDrv` event of one (query, answer) pair of a trace -/
def evOf (p : Query × Answer) : Ev := { x := p.1.x, f := valOf p.2, forced := forcedOf p.2 }

/-- the `CrsDrv` events of a trace -/
def events (tr : List (Query × Answer)) : List Ev := tr.map evOf

/-- The unmodelled part of CRS (initial population, `random_trial`, local mutation): an arbitrary state machine.
    `next ps st x a`: `st` = driver state after the bookkeeping of the evaluation just made, `x` = the point just
    evaluated, `a` = the complete answer; returns the new proposer state and the NEXT point to evaluate. -/
structure Proposer where
  PS : Type
  init : PS
  next : PS → CrsDrv.St → List F64 → Answer → PS × List F64

/-- an arbitrary function of the whole history (all (point, answer) pairs so far, oldest first) is a proposer -/
def Proposer.ofHistory (g : List (List F64 × Answer) → List F64) : Proposer :=
  { PS := List (List F64 × Answer), init := [],
    next := fun h _ x a => (h ++ [(x, a)], g (h ++ [(x, a)])) }

/-- state of the machine: driver state, proposer state, the point of the outstanding (or first) query -/
structure S (P : Proposer) where
  drv : CrsDrv.St
  ps : P.PS
  cur : List F64

/-- what the memory cell `*minf` holds on return (`HUGE_VAL` on entry) -/
def Res.minfMem (r : Res) : F64 := r.minf.getD F64.posInf

/-- what `crs_minimize` hands back, as an `AlgResult` -/
def toAlgResult (r : Res) : AlgResult :=
  { ret := r.ret, x := r.x, minf := Res.minfMem r, numevals := r.nevals }

def stepS (A : Arith) (T : Sel) (P : Proposer) (c : Cfg) (s : S P) : Option Answer → S P × (Query ⊕ AlgResult)
  | none =>
    if c.invalid then (s, .inr (toAlgResult (invalidRes c)))   -- `N < n + 1`: INVALID_ARGS before any evaluation
    else (s, .inl (qOf s.cur))                                  -- evaluate the caller's start point (slot 0)
  | some a =>
    match CrsDrv.step A T c s.drv (evOf (qOf s.cur, a)) with
    | .done r => (s, .inr (toAlgResult r))
    | .cont st' =>
      let pn := P.next s.ps st' s.cur a
      ({ drv := st', ps := pn.1, cur := pn.2 }, .inl (qOf pn.2))

/-- The CRS driver as an `Alg`. -/
@[reducible] def mk (A : Arith) (T : Sel) (P : Proposer) (c : Cfg) : Alg :=
  { S := S P,
    init := { drv := CrsDrv.st0, ps := P.init, cur := c.x0 },
    step := stepS A T P c }

end Nlopt.CrsAlg
