import NloptModel.Model.F64
/-!
  The "best solution so far" rule of `isres_minimize` (isres.c), as a fold over the evaluated population members.
  The evolution strategy itself only proposes the points.

  C text (inside the evaluation loop, after `feasible`, `penalty[k]` and `gpenalty` were computed for member k):

      if ((penalty[k] <= minf_penalty || feasible)
          && (fval[k] <= *minf || minf_gpenalty > 0)
          && ((feasible ? 0 : penalty[k]) != minf_penalty || fval[k] != *minf)) {
          ...
          memcpy(x, xs+k*n, ...); *minf = fval[k];
          minf_penalty = feasible ? 0 : penalty[k];
          minf_gpenalty = feasible ? 0 : gpenalty;
      }

  with `*minf = minf_penalty = minf_gpenalty = HUGE_VAL` initially.
-/
namespace Nlopt.Isres
open Nlopt

/-- one evaluated member: objective value, "all constraints within tolerance", total penalty (sum of squared violations of
    inequality and equality constraints), the inequality part of it, identity of the point -/
structure Ev where
  f : F64
  feas : Bool
  penalty : F64
  gpenalty : F64
  pt : Nat
  deriving DecidableEq

structure Inc where
  minf : F64 := F64.posInf
  pen : F64 := F64.posInf
  gpen : F64 := F64.posInf
  pt : Option Nat := none
  deriving DecidableEq

/-- `feasible ? 0 : penalty[k]` -/
def effPen (e : Ev) : F64 := if e.feas then F64.zero else e.penalty
def effGpen (e : Ev) : F64 := if e.feas then F64.zero else e.gpenalty

def accepts (s : Inc) (e : Ev) : Bool :=
  (F64.le e.penalty s.pen || e.feas) && (F64.le e.f s.minf || F64.gt s.gpen F64.zero) &&
    (F64.fne (effPen e) s.pen || F64.fne e.f s.minf)

def update (s : Inc) (e : Ev) : Inc :=
  if accepts s e then { minf := e.f, pen := effPen e, gpen := effGpen e, pt := some e.pt } else s

def run (es : List Ev) : Inc := es.foldl update {}

end Nlopt.Isres
