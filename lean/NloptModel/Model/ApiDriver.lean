import NloptModel.Model.Api
/-! Line-protocol driver for the S-api correspondence stream: consumes the operation lines that
    `harness/api.c` executes on the real library and prints the same canonical result lines. -/
namespace Nlopt.ApiDrv
open Nlopt

structure World where
  as : AS := {}
  slots : List (Option Obj) := List.replicate 8 none
  caps : AlgCaps := { ineqOk := [], eqOk := [] }
  deriving Inhabited

def hexList : Option (List F64) → String
  | none => "-"
  | some [] => "_"
  | some l => ",".intercalate (l.map F64.toHex)

def arrHex (a : Option Arr) : String := hexList (a.map (·.v))

def parseList (t : String) : Option (Option (List F64)) :=
  if t == "-" then some none
  else if t == "_" then some (some [])
  else (t.splitOn ",").mapM F64.ofHex? |>.map some

def b2d (b : Bool) : String := if b then "1" else "0"

def snapCons (cs : List Con) (alloc : Nat) : String :=
  s!"{cs.length}/{alloc}[" ++ ";".intercalate (cs.map fun c =>
    s!"{c.m}:{if c.isVec then "v" else "s"}{c.fid}:p{c.pre}:d{c.fdata}:{arrHex c.tol}") ++ "]"

def snapCore (c : Core) (inner : String) : String :=
  s!"\{alg={c.algorithm} n={c.n} f={c.f} d={c.fdata} pre={c.pre} max={b2d c.maximize}" ++
  s!" lb={arrHex c.lb} ub={arrHex c.ub} stopval={c.stopval.toHex} ftol_rel={c.ftolRel.toHex}" ++
  s!" ftol_abs={c.ftolAbs.toHex} xtol_rel={c.xtolRel.toHex} xtol_abs={arrHex c.xtolAbs} xw={arrHex c.xWeights}" ++
  s!" maxeval={c.maxeval} maxtime={c.maxtime.toHex} numevals={c.numevals} fstop={c.forceStop} pop={c.pop} vs={c.vs}" ++
  s!" dx={arrHex c.dx} fc={snapCons c.fc c.mAlloc} h={snapCons c.h c.pAlloc}" ++
  s!" params={c.params.length}[" ++ ";".intercalate (c.params.map fun p => s!"{p.name}:{p.val.toHex}") ++
  s!"] munge={b2d c.mungeD}{b2d c.mungeC} err={b2d c.errmsg.isSome} local={inner}}"

def snapChain : List Core → String
  | [] => "-"
  | c :: rest => snapCore c (snapChain rest)

def labelCore (c : Core) (depth : Nat) (b : Nat) : Option String :=
  if c.self = b then some (if depth > 0 then "lopt" else "opt")
  else if c.lb.map (·.blk) = some b then some "lb"
  else if c.ub.map (·.blk) = some b then some "ub"
  else if c.xtolAbs.map (·.blk) = some b then some "xtol_abs"
  else if c.xWeights.map (·.blk) = some b then some "xw"
  else if c.dx.map (·.blk) = some b then some "dx"
  else if c.fcBlk = some b then some "fc"
  else if c.hBlk = some b then some "h"
  else if c.paramsBlk = some b then some "params"
  else if c.errmsg = some b then some "errmsg"
  else if (c.fc ++ c.h).any (fun k => k.tol.map (·.blk) = some b) then some "tol"
  else if c.params.any (fun p => p.nameBlk = b) then some "name"
  else none

def labelChain : List Core → Nat → Nat → Option String
  | [], _, _ => none
  | c :: rest, depth, b => (labelCore c depth b).orElse fun _ => labelChain rest (depth + 1) b

def label (w : World) (b : Nat) : String :=
  (w.slots.findSome? fun o => o.bind fun o => labelChain o.chain 0 b).getD "tmp"

def evStr (w : World) : Ev → String
  | .alloc id sz => let l := label w id; if l == "errmsg" then s!"A{id}:errmsg" else s!"A{id}:{l}:{sz}"
  | .allocFail => "X"
  | .realloc o n sz => let l := label w n; if l == "errmsg" then s!"R{o}>{n}:errmsg" else s!"R{o}>{n}:{l}:{sz}"
  | .reallocFail o => s!"RX{o}"
  | .free id => s!"F{id}"
  | .badFree _ => "BADFREE"
  | .mungeD d => s!"MD{d}"
  | .mungeC d d' => s!"MC{d}>{d'}"

def stateStr (w : World) : String :=
  String.join ((List.range w.slots.length).filterMap fun i =>
    match w.slots.getD i none with
    | some o => some s!" |o{i}={snapChain o.chain}"
    | none => none)

def slotIdx (t : String) : Option Nat :=
  if t.startsWith "o" then (t.drop 1).toString.toNat? else none

def getSlot (w : World) (t : String) : Option Obj :=
  match slotIdx t with
  | some i => (w.slots.getD i none)
  | none => none

def setSlot (w : World) (t : String) (o : Option Obj) : World :=
  match slotIdx t with
  | some i => { w with slots := w.slots.set i o }
  | none => w

/-- result of one op on the model -/
inductive Ret where
  | code (r : Int)
  | ptr (ok : Bool)
  | void
  | text (s : String)

def finishLine (w : World) (r : Ret) (out : Option (List F64)) : World × String :=
  let head := match r with
    | .code c => toString c
    | .ptr ok => if ok then "ptr" else "null"
    | .void => "-"
    | .text s => s
  let o := match r, out with
    | .code 1, some l => " out=" ++ hexList (some l)
    | _, _ => ""
  let evs := "[" ++ ",".intercalate (w.as.evs.map (evStr w)) ++ "]"
  ({ w with as := { w.as with evs := [], failIn := 0, mcFailIn := 0 } }, head ++ o ++ " ev=" ++ evs ++ stateStr w)

/-- apply a core-level function to the object in a slot (NULL handle → `nullRet`) -/
def onCore (w : World) (t : String) (nullRet : Int)
    (f : AS → Core → AS × Core × Int) : World × Ret :=
  match getSlot w t with
  | none => (w, .code nullRet)
  | some o =>
    let (s, c, r) := f w.as o.core
    (setSlot { w with as := s } t (some { o with core := c }), .code r)

def onCoreOut (w : World) (t : String)
    (f : AS → Core → AS × Core × Int × List F64) : World × Ret × Option (List F64) :=
  match getSlot w t with
  | none => (w, .code rINVALID, none)
  | some o =>
    let (s, c, r, out) := f w.as o.core
    (setSlot { w with as := s } t (some { o with core := c }), .code r, some out)

def nameArg (t : String) : Option String := if t == "null" then none else some t

def step (A : Arith) (w : World) (line : String) : World × String :=
  let toks := (line.trimAscii.toString.splitOn " ").filter (· ≠ "")
  let nat (t : String) : Nat := t.toNat?.getD 0
  let int (t : String) : Int := t.toInt?.getD 0
  let hx (t : String) : F64 := (F64.ofHex? t).getD F64.zero
  let lst (t : String) : Option (List F64) := (parseList t).getD none
  let fin (p : World × Ret) := finishLine p.1 p.2 none
  match toks with
  | ["sizes", a, b, c] =>
    ({ w with as := { w.as with sz := { opt := nat (a.drop 4).toString, con := nat (b.drop 4).toString, par := nat (c.drop 4).toString } } }, "")
  | ["caps", n, i, e] =>
    let ps (t : String) : List Nat := (t.splitOn ",").filterMap String.toNat?
    ({ w with caps := { ineqOk := ps i, eqOk := ps e }, as := { w.as with numAlgs := nat n } }, "")
  | ["history", _] =>
    ({ w with as := { w.as with next := 0, nextData := 1000, evs := [], live := [], failIn := 0, mcFailIn := 0 },
              slots := List.replicate 8 none }, line.trimAscii.toString)
  | ["oracle", k] => ({ w with as := { w.as with failIn := nat k } }, "-")
  | ["mcfail", k] => ({ w with as := { w.as with mcFailIn := nat k } }, "-")
  | ["create", t, alg, n] =>
    let (s, o) := create A w.as (int alg) (nat n)
    finishLine (setSlot { w with as := s } t o) (.ptr o.isSome) none
  | ["destroy", t] =>
    match getSlot w t with
    | none => finishLine w .void none
    | some o => finishLine (setSlot { w with as := destroy w.as o } t none) .void none
  | ["copy", src, dst] =>
    match getSlot w src with
    | none => finishLine (setSlot w dst none) (.ptr false) none
    | some o =>
      let (s, n) := copy w.as o
      finishLine (setSlot { w with as := s } dst n) (.ptr n.isSome) none
  | ["set_min", t, f, d] => fin (onCore w t rINVALID fun s c => setObjective s c (nat f) 0 (nat d) false)
  | ["set_max", t, f, d] => fin (onCore w t rINVALID fun s c => setObjective s c (nat f) 0 (nat d) true)
  | ["set_pmin", t, f, p, d] => fin (onCore w t rINVALID fun s c => setObjective s c (nat f) (nat p) (nat d) false)
  | ["set_pmax", t, f, p, d] => fin (onCore w t rINVALID fun s c => setObjective s c (nat f) (nat p) (nat d) true)
  | ["set_lb", t, l] => fin (onCore w t rINVALID fun s c => setLowerBounds A s c (lst l))
  | ["set_ub", t, l] => fin (onCore w t rINVALID fun s c => setUpperBounds A s c (lst l))
  | ["set_lb1", t, x] => fin (onCore w t rINVALID fun s c => setLowerBounds1 A s c (hx x))
  | ["set_ub1", t, x] => fin (onCore w t rINVALID fun s c => setUpperBounds1 A s c (hx x))
  | ["set_lbi", t, i, x] => fin (onCore w t rINVALID fun s c => setLowerBound A s c (int i) (hx x))
  | ["set_ubi", t, i, x] => fin (onCore w t rINVALID fun s c => setUpperBound A s c (int i) (hx x))
  | ["get_lb", t] => let (w, r, o) := onCoreOut w t fun s c => getLowerBounds s c false; finishLine w r o
  | ["get_ub", t] => let (w, r, o) := onCoreOut w t fun s c => getUpperBounds s c false; finishLine w r o
  | ["get_xtol_abs", t] => let (w, r, o) := onCoreOut w t fun s c => getXtolAbs s c false; finishLine w r o
  | ["get_xw", t] => let (w, r, o) := onCoreOut w t fun s c => getXWeights s c false; finishLine w r o
  | ["get_lb_null", t] => let (w, r, _) := onCoreOut w t fun s c => getLowerBounds s c true; finishLine w r none
  | ["get_ub_null", t] => let (w, r, _) := onCoreOut w t fun s c => getUpperBounds s c true; finishLine w r none
  | ["get_xtol_abs_null", t] => let (w, r, _) := onCoreOut w t fun s c => getXtolAbs s c true; finishLine w r none
  | ["get_xw_null", t] => let (w, r, _) := onCoreOut w t fun s c => getXWeights s c true; finishLine w r none
  | ["add_ineq", t, f, d, tol] =>
    fin (onCore w t rINVALID fun s c => addCon w.caps.ineqOk false s c 1 false (nat f) 0 (nat d) (some [hx tol]))
  | ["add_eq", t, f, d, tol] =>
    fin (onCore w t rINVALID fun s c => addCon w.caps.eqOk true s c 1 false (nat f) 0 (nat d) (some [hx tol]))
  | ["add_pineq", t, f, p, d, tol] =>
    fin (onCore w t rINVALID fun s c => addCon w.caps.ineqOk false s c 1 false (nat f) (nat p) (nat d) (some [hx tol]))
  | ["add_peq", t, f, p, d, tol] =>
    fin (onCore w t rINVALID fun s c => addCon w.caps.eqOk true s c 1 false (nat f) (nat p) (nat d) (some [hx tol]))
  | ["add_ineqm", t, m, f, d, tol] =>
    -- NULL handle: an empty constraint is still a successful no-op
    fin (onCore w t (if nat m = 0 then rSUCCESS else rINVALID)
      fun s c => addCon w.caps.ineqOk false s c (nat m) true (nat f) 0 (nat d) (lst tol))
  | ["add_eqm", t, m, f, d, tol] =>
    fin (onCore w t (if nat m = 0 then rSUCCESS else rINVALID)
      fun s c => addCon w.caps.eqOk true s c (nat m) true (nat f) 0 (nat d) (lst tol))
  | ["rm_ineq", t] => fin (onCore w t rINVALID removeIneq)
  | ["rm_eq", t] => fin (onCore w t rINVALID removeEq)
  | ["set_stopval", t, x] => fin (onCore w t rINVALID fun s c => setScalar s c fun c => { c with stopval := hx x })
  | ["set_ftol_rel", t, x] => fin (onCore w t rINVALID fun s c => setScalar s c fun c => { c with ftolRel := hx x })
  | ["set_ftol_abs", t, x] => fin (onCore w t rINVALID fun s c => setScalar s c fun c => { c with ftolAbs := hx x })
  | ["set_xtol_rel", t, x] => fin (onCore w t rINVALID fun s c => setScalar s c fun c => { c with xtolRel := hx x })
  | ["set_xtol_abs", t, l] => fin (onCore w t rINVALID fun s c => setXtolAbs s c (lst l))
  | ["set_xtol_abs1", t, x] => fin (onCore w t rINVALID fun s c => setXtolAbs1 s c (hx x))
  | ["set_xw", t, l] => fin (onCore w t rINVALID fun s c => setXWeights s c (lst l))
  | ["set_xw1", t, x] => fin (onCore w t rINVALID fun s c => setXWeights1 s c (hx x))
  | ["set_maxeval", t, k] => fin (onCore w t rINVALID fun s c => setScalar s c fun c => { c with maxeval := int k })
  | ["set_maxtime", t, x] => fin (onCore w t rINVALID fun s c => setScalar s c fun c => { c with maxtime := hx x })
  | ["set_pop", t, k] => fin (onCore w t rINVALID fun s c => setScalar s c fun c => { c with pop := nat k })
  | ["set_vs", t, k] => fin (onCore w t rINVALID fun s c => setScalar s c fun c => { c with vs := nat k })
  | ["set_force_stop", t, k] => fin (onCore w t rINVALID fun s c => setScalar s c fun c => { c with forceStop := int k })
  | ["force_stop", t] => fin (onCore w t rINVALID fun s c => setScalar s c fun c => { c with forceStop := 1 })
  | ["set_dx", t, l] => fin (onCore w t rINVALID fun s c => setInitialStep s c (lst l))
  | ["set_dx1", t, x] => fin (onCore w t rINVALID fun s c => setInitialStep1 s c (hx x))
  | ["set_default_dx", t, l] => fin (onCore w t rINVALID fun s c => setDefaultInitialStep A s c (lst l))
  | ["get_dx", t, l] => let (w, r, o) := onCoreOut w t fun s c => getInitialStep A s c (lst l); finishLine w r o
  | ["set_munge", t, d, c] =>
    match getSlot w t with
    | none => finishLine w .void none
    | some o => finishLine (setSlot w t (some { o with core := { o.core with mungeD := nat d ≠ 0, mungeC := nat c ≠ 0 } })) .void none
  | ["set_param", t, nm, x] =>
    fin (onCore w t rINVALID fun s c => setParam s c (nameArg nm) (hx x))
  | ["set_param_long", t, x] =>
    fin (onCore w t rINVALID fun s c => setParam s c (some (String.ofList (List.replicate 1999 'a'))) (hx x))
  | ["get_param", t, nm, x] =>
    match getSlot w t with
    | none => finishLine w (.text s!"{(hx x).toHex}:0") none
    | some o => finishLine w (.text s!"{(getParam o.core (nameArg nm) (hx x)).toHex}:{b2d (hasParam o.core (nameArg nm))}") none
  | ["nth_param", t, k] =>
    match getSlot w t with
    | none => finishLine w (.text "(null)") none
    | some o => finishLine w (.text (match o.core.params[nat k]? with | some p => p.name | none => "(null)")) none
  | ["get_scalars", t] =>
    match getSlot w t with
    | none => finishLine w (.text "crash") none
    | some o =>
      let c := o.core
      finishLine w (.text (s!"alg={c.algorithm} n={c.n} stopval={c.stopval.toHex} ftol_rel={c.ftolRel.toHex} ftol_abs={c.ftolAbs.toHex}" ++
        s!" xtol_rel={c.xtolRel.toHex} maxeval={c.maxeval} maxtime={c.maxtime.toHex} numevals={c.numevals} fstop={c.forceStop}" ++
        s!" pop={c.pop} vs={c.vs} nparams={c.params.length}")) none
  | ["set_local", t, l] =>
    match getSlot w t with
    | none => finishLine w (.code rINVALID) none
    | some o =>
      let (s, o', r) := setLocalOptimizer A w.as o (getSlot w l)
      finishLine (setSlot { w with as := s } t (some o')) (.code r) none
  | ["end"] =>
    -- destroy every live object in slot order; report blocks still live afterwards
    let s := w.slots.foldl (fun s o => match o with | some o => destroy s o | none => s) w.as
    let w' : World := { w with as := s, slots := List.replicate 8 none }
    let evs := "[" ++ ",".intercalate (s.evs.map (evStr w')) ++ "]"
    ({ w' with as := { s with evs := [] } }, s!"end leaks={s.live.length} ev={evs}")
  | [] => (w, "")
  | _ => (w, "bad-op")

end Nlopt.ApiDrv
