import NloptModel.Model.ApiOps
/-! Line-protocol driver for the S-api correspondence stream: consumes the operation lines that
    `harness/api.c` executes on the real library and prints the same canonical result lines. -/
namespace Nlopt.ApiDrv
open Nlopt

def hexList : Option (List F64) → String
  | none => "-"
  | some [] => "_"
  | some l => ",".intercalate (l.map F64.toHex)

def arrHex (a : Option Arr) : String := hexList (a.map (·.v))

def parseList (t : String) : Option (Option (List F64)) :=
  if t == "-" then some none
  else if t == "_" then some (some [])
  else (t.splitOn ",").mapM F64.ofHex? |>.map some

def b2d (b : Bool) : String := if b then "1" else "0"

def snapCons (cs : List Con) (alloc : Nat) : String :=
  s!"{cs.length}/{alloc}[" ++ ";".intercalate (cs.map fun c =>
    s!"{c.m}:{if c.isVec then "v" else "s"}{c.fid}:p{c.pre}:d{c.fdata}:{arrHex c.tol}") ++ "]"

def snapCore (c : Core) (inner : String) : String :=
  s!"\{alg={c.algorithm} n={c.n} f={c.f} d={c.fdata} pre={c.pre} max={b2d c.maximize}" ++
  s!" lb={arrHex c.lb} ub={arrHex c.ub} stopval={c.stopval.toHex} ftol_rel={c.ftolRel.toHex}" ++
  s!" ftol_abs={c.ftolAbs.toHex} xtol_rel={c.xtolRel.toHex} xtol_abs={arrHex c.xtolAbs} xw={arrHex c.xWeights}" ++
  s!" maxeval={c.maxeval} maxtime={c.maxtime.toHex} numevals={c.numevals} fstop={c.forceStop} pop={c.pop} vs={c.vs}" ++
  s!" dx={arrHex c.dx} fc={snapCons c.fc c.mAlloc} h={snapCons c.h c.pAlloc}" ++
  s!" params={c.params.length}[" ++ ";".intercalate (c.params.map fun p => s!"{p.name}:{p.val.toHex}") ++
  s!"] munge={b2d c.mungeD}{b2d c.mungeC} err={b2d c.errmsg.isSome} local={inner}}"

def snapChain : List Core → String
  | [] => "-"
  | c :: rest => snapCore c (snapChain rest)

def labelCore (c : Core) (depth : Nat) (b : Nat) : Option String :=
  if c.self = b then some (if depth > 0 then "lopt" else "opt")
  else if c.lb.map (·.blk) = some b then some "lb"
  else if c.ub.map (·.blk) = some b then some "ub"
  else if c.xtolAbs.map (·.blk) = some b then some "xtol_abs"
  else if c.xWeights.map (·.blk) = some b then some "xw"
  else if c.dx.map (·.blk) = some b then some "dx"
  else if c.fcBlk = some b then some "fc"
  else if c.hBlk = some b then some "h"
  else if c.paramsBlk = some b then some "params"
  else if c.errmsg = some b then some "errmsg"
  else if (c.fc ++ c.h).any (fun k => k.tol.map (·.blk) = some b) then some "tol"
  else if c.params.any (fun p => p.nameBlk = b) then some "name"
  else none

def labelChain : List Core → Nat → Nat → Option String
  | [], _, _ => none
  | c :: rest, depth, b => (labelCore c depth b).orElse fun _ => labelChain rest (depth + 1) b

def label (w : World) (b : Nat) : String :=
  (w.slots.findSome? fun o => o.bind fun o => labelChain o.chain 0 b).getD "tmp"

def evStr (w : World) : Ev → String
  | .alloc id sz => let l := label w id; if l == "errmsg" then s!"A{id}:errmsg" else s!"A{id}:{l}:{sz}"
  | .allocFail => "X"
  | .realloc o n sz => let l := label w n; if l == "errmsg" then s!"R{o}>{n}:errmsg" else s!"R{o}>{n}:{l}:{sz}"
  | .reallocFail o => s!"RX{o}"
  | .free id => s!"F{id}"
  | .badFree _ => "BADFREE"
  | .mungeD d => s!"MD{d}"
  | .mungeC d d' => s!"MC{d}>{d'}"

def stateStr (w : World) : String :=
  String.join ((List.range w.slots.length).filterMap fun i =>
    match w.slots.getD i none with
    | some o => some s!" |o{i}={snapChain o.chain}"
    | none => none)

def slotArg (t : String) : Option Nat :=
  if t.startsWith "o" then (t.drop 1).toString.toNat? else none

def nameArg (t : String) : Option String := if t == "null" then none else some t

/-- parse one protocol line into an operation -/
def parseOp (toks : List String) : Option Op :=
  let nat (t : String) : Nat := t.toNat?.getD 0
  let int (t : String) : Int := t.toInt?.getD 0
  let hx (t : String) : F64 := (F64.ofHex? t).getD F64.zero
  let lst (t : String) : Option (List F64) := (parseList t).getD none
  match toks with
  | ["oracle", k] => some (.oracle (nat k))
  | ["mcfail", k] => some (.mcfail (nat k))
  | ["create", t, alg, n] => some (.create ((slotArg t).getD 0) (int alg) (nat n))
  | ["destroy", t] => some (.destroy (slotArg t))
  | ["copy", src, dst] => some (.copy (slotArg src) ((slotArg dst).getD 0))
  | ["set_min", t, f, d] => some (.setObjective (slotArg t) (nat f) 0 (nat d) false)
  | ["set_max", t, f, d] => some (.setObjective (slotArg t) (nat f) 0 (nat d) true)
  | ["set_pmin", t, f, p, d] => some (.setObjective (slotArg t) (nat f) (nat p) (nat d) false)
  | ["set_pmax", t, f, p, d] => some (.setObjective (slotArg t) (nat f) (nat p) (nat d) true)
  | ["set_lb", t, l] => some (.setLb (slotArg t) (lst l))
  | ["set_ub", t, l] => some (.setUb (slotArg t) (lst l))
  | ["set_lb1", t, x] => some (.setLb1 (slotArg t) (hx x))
  | ["set_ub1", t, x] => some (.setUb1 (slotArg t) (hx x))
  | ["set_lbi", t, i, x] => some (.setLbi (slotArg t) (int i) (hx x))
  | ["set_ubi", t, i, x] => some (.setUbi (slotArg t) (int i) (hx x))
  | ["get_lb", t] => some (.getLb (slotArg t) false)
  | ["get_ub", t] => some (.getUb (slotArg t) false)
  | ["get_xtol_abs", t] => some (.getXtolAbs (slotArg t) false)
  | ["get_xw", t] => some (.getXw (slotArg t) false)
  | ["get_lb_null", t] => some (.getLb (slotArg t) true)
  | ["get_ub_null", t] => some (.getUb (slotArg t) true)
  | ["get_xtol_abs_null", t] => some (.getXtolAbs (slotArg t) true)
  | ["get_xw_null", t] => some (.getXw (slotArg t) true)
  | ["add_ineq", t, f, d, tol] => some (.addCon (slotArg t) false 1 false (nat f) 0 (nat d) (some [hx tol]))
  | ["add_eq", t, f, d, tol] => some (.addCon (slotArg t) true 1 false (nat f) 0 (nat d) (some [hx tol]))
  | ["add_pineq", t, f, p, d, tol] => some (.addCon (slotArg t) false 1 false (nat f) (nat p) (nat d) (some [hx tol]))
  | ["add_peq", t, f, p, d, tol] => some (.addCon (slotArg t) true 1 false (nat f) (nat p) (nat d) (some [hx tol]))
  | ["add_ineqm", t, m, f, d, tol] => some (.addCon (slotArg t) false (nat m) true (nat f) 0 (nat d) (lst tol))
  | ["add_eqm", t, m, f, d, tol] => some (.addCon (slotArg t) true (nat m) true (nat f) 0 (nat d) (lst tol))
  | ["rm_ineq", t] => some (.rmIneq (slotArg t))
  | ["rm_eq", t] => some (.rmEq (slotArg t))
  | ["set_stopval", t, x] => some (.setScalar (slotArg t) (.stopval (hx x)))
  | ["set_ftol_rel", t, x] => some (.setScalar (slotArg t) (.ftolRel (hx x)))
  | ["set_ftol_abs", t, x] => some (.setScalar (slotArg t) (.ftolAbs (hx x)))
  | ["set_xtol_rel", t, x] => some (.setScalar (slotArg t) (.xtolRel (hx x)))
  | ["set_maxtime", t, x] => some (.setScalar (slotArg t) (.maxtime (hx x)))
  | ["set_maxeval", t, k] => some (.setScalar (slotArg t) (.maxeval (int k)))
  | ["set_pop", t, k] => some (.setScalar (slotArg t) (.pop (nat k)))
  | ["set_vs", t, k] => some (.setScalar (slotArg t) (.vs (nat k)))
  | ["set_force_stop", t, k] => some (.setScalar (slotArg t) (.forceStop (int k)))
  | ["force_stop", t] => some (.setScalar (slotArg t) (.forceStop 1))
  | ["set_xtol_abs", t, l] => some (.setXtolAbs (slotArg t) (lst l))
  | ["set_xtol_abs1", t, x] => some (.setXtolAbs1 (slotArg t) (hx x))
  | ["set_xw", t, l] => some (.setXw (slotArg t) (lst l))
  | ["set_xw1", t, x] => some (.setXw1 (slotArg t) (hx x))
  | ["set_dx", t, l] => some (.setDx (slotArg t) (lst l))
  | ["set_dx1", t, x] => some (.setDx1 (slotArg t) (hx x))
  | ["set_default_dx", t, l] => some (.setDefaultDx (slotArg t) (lst l))
  | ["get_dx", t, l] => some (.getDx (slotArg t) (lst l))
  | ["set_munge", t, d, c] => some (.setMunge (slotArg t) (nat d ≠ 0) (nat c ≠ 0))
  | ["set_param", t, nm, x] => some (.setParam (slotArg t) (nameArg nm) (hx x))
  | ["set_param_long", t, x] => some (.setParam (slotArg t) (some (String.ofList (List.replicate 1999 'a'))) (hx x))
  | ["set_local", t, l] => some (.setLocal (slotArg t) (slotArg l))
  | _ => none

def finishLine (w : World) (head : String) (code1 : Bool) (out : Option (List F64)) : World × String :=
  let o := match code1, out with
    | true, some l => " out=" ++ hexList (some l)
    | _, _ => ""
  let evs := "[" ++ ",".intercalate (w.as.evs.map (evStr w)) ++ "]"
  ({ w with as := { w.as with evs := [] } }, head ++ o ++ " ev=" ++ evs ++ stateStr w)

def step (A : Arith) (w : World) (line : String) : World × String :=
  let toks := (line.trimAscii.toString.splitOn " ").filter (· ≠ "")
  let nat (t : String) : Nat := t.toNat?.getD 0
  let hx (t : String) : F64 := (F64.ofHex? t).getD F64.zero
  match toks with
  | ["sizes", a, b, c] =>
    ({ w with as := { w.as with sz := { opt := nat (a.drop 4).toString, con := nat (b.drop 4).toString, par := nat (c.drop 4).toString } } }, "")
  | ["caps", n, i, e] =>
    let ps (t : String) : List Nat := (t.splitOn ",").filterMap String.toNat?
    ({ w with caps := { ineqOk := ps i, eqOk := ps e }, as := { w.as with numAlgs := nat n } }, "")
  | ["history", _] =>
    ({ w with as := { w.as with next := 0, nextData := 1000, evs := [], live := [], failIn := 0, mcFailIn := 0 },
              slots := List.replicate 8 none }, line.trimAscii.toString)
  | ["get_param", t, nm, x] =>
    match w.get (slotArg t) with
    | none => finishLine w s!"{(hx x).toHex}:0" false none
    | some o => finishLine w s!"{(getParam o.core (nameArg nm) (hx x)).toHex}:{b2d (hasParam o.core (nameArg nm))}" false none
  | ["nth_param", t, k] =>
    match w.get (slotArg t) with
    | none => finishLine w "(null)" false none
    | some o => finishLine w (match o.core.params[nat k]? with | some p => p.name | none => "(null)") false none
  | ["get_scalars", t] =>
    match w.get (slotArg t) with
    | none => finishLine w "crash" false none
    | some o =>
      let c := o.core
      finishLine w (s!"alg={c.algorithm} n={c.n} stopval={c.stopval.toHex} ftol_rel={c.ftolRel.toHex} ftol_abs={c.ftolAbs.toHex}" ++
        s!" xtol_rel={c.xtolRel.toHex} maxeval={c.maxeval} maxtime={c.maxtime.toHex} numevals={c.numevals} fstop={c.forceStop}" ++
        s!" pop={c.pop} vs={c.vs} nparams={c.params.length}") false none
  | ["end"] =>
    let s := w.slots.foldl (fun s o => match o with | some o => destroy s o | none => s) w.as
    let w' : World := { w with as := s, slots := List.replicate 8 none }
    let evs := "[" ++ ",".intercalate (s.evs.map (evStr w')) ++ "]"
    ({ w' with as := { s with evs := [] } }, s!"end leaks={s.live.length} ev={evs}")
  | [] => (w, "")
  | _ =>
    match parseOp toks with
    | none => (w, "bad-op")
    | some op =>
      match op with
      | .oracle _ | .mcfail _ => ((applyOp A w op).1, "-")
      | _ =>
        let (w', r, out) := applyOp A w op
        let out := match op with
          | .getLb _ true | .getUb _ true | .getXtolAbs _ true | .getXw _ true => none
          | _ => out
        let (head, c1) := match r with
          | .code c => (toString c, c == 1)
          | .ptr ok => (if ok then "ptr" else "null", false)
          | .void => ("-", false)
        finishLine w' head c1 out

end Nlopt.ApiDrv
