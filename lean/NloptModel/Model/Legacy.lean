import NloptModel.Model.ApiOps
/-!
  Model of `src/api/deprecated.c`: `nlopt_minimize_econstrained` (and through it `nlopt_minimize_constrained`,
  `nlopt_minimize`) builds an object with the object API, step by step, returning the first failing code.
-/
namespace Nlopt.Legacy
open Nlopt

structure Args where
  algorithm : Int
  n : Int
  fdata : Nat
  m : Int
  fcData : Nat          -- base of the inequality data array
  fcStride : Nat
  p : Int
  hData : Nat
  hStride : Nat
  lb : Option (List F64)
  ub : Option (List F64)
  minfMax : F64
  ftolRel : F64
  ftolAbs : F64
  xtolRel : F64
  xtolAbs : Option (List F64)
  htolAbs : F64
  maxeval : Int
  maxtime : F64

/-- the configuration calls made on the fresh object (slot 0), in program order -/
def configOps (a : Args) : List Op :=
  [Op.setObjective (some 0) 1 0 a.fdata false] ++
  (List.range a.m.toNat).map (fun i => Op.addCon (some 0) false 1 false 2 0 (a.fcData + i * a.fcStride) (some [F64.zero])) ++
  (List.range a.p.toNat).map (fun i => Op.addCon (some 0) true 1 false 3 0 (a.hData + i * a.hStride) (some [a.htolAbs])) ++
  [Op.setLb (some 0) a.lb, Op.setUb (some 0) a.ub,
   Op.setScalar (some 0) (.stopval a.minfMax), Op.setScalar (some 0) (.ftolRel a.ftolRel), Op.setScalar (some 0) (.ftolAbs a.ftolAbs),
   Op.setScalar (some 0) (.xtolRel a.xtolRel)] ++
  (match a.xtolAbs with | some v => [Op.setXtolAbs (some 0) (some v)] | none => []) ++
  [Op.setScalar (some 0) (.maxeval a.maxeval), Op.setScalar (some 0) (.maxtime a.maxtime)]

/-- run the calls until the first one that does not return `NLOPT_SUCCESS`; `inl code` = early return -/
def runUntilFail (A : Arith) (w : World) : List Op → Int ⊕ World
  | [] => .inr w
  | op :: rest =>
    match applyOp A w op with
    | (w', .code r, _) => if r = rSUCCESS then runUntilFail A w' rest else .inl r
    | (w', _, _) => runUntilFail A w' rest

/-- the object `nlopt_minimize_econstrained` hands to `nlopt_optimize` (`inl code`: returned before optimizing) -/
def build (A : Arith) (w0 : World) (a : Args) : Int ⊕ World :=
  if a.n < 0 ∨ a.m < 0 ∨ a.p < 0 then .inl rINVALID
  else
    match applyOp A w0 (Op.create 0 a.algorithm a.n.toNat) with
    | (w, .ptr true, _) => runUntilFail A w (configOps a)
    | _ => .inl rINVALID

end Nlopt.Legacy
