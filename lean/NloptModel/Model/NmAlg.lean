import NloptModel.Model.Run
import NloptModel.Model.NmDriver
import NloptModel.Model.EschAlg
/-!
# The Nelder-Mead driver (`nldrmd_minimize`) as an algorithm machine (`Alg`)

`Model/NmDriver.lean` is a control-flow model that CONSUMES a list of evaluations; `Model/Run.lean` / `Model/Wrap.lean`
talk about machines that ISSUE queries to an environment (the user's callbacks behind the wrapper stack of
`nlopt_optimize`).  `NmAlg.mk O A P c` is the bridge: the `NmDrv` state machine in WRAPPER mode (`nldrmd_minimize`, the
entry used by `NLOPT_LN_NELDERMEAD`; `c.minf0` is expected to be `none`), driven by the answers of the environment, with
the points supplied by a proposer `P`.

* `O : NmDrv.Ord` is how the red-black tree answers its min / max / pred queries (`NmDrv.treeOrd` for a consistently
  ordered tree), `A : Arith` the rounded arithmetic of the ftol / xtol tests; both are PARAMETERS of the machine, exactly
  as they are parameters of `NmDrv.runWith`.
* The first point is the caller's `x` (`c.x0`): `*minf = f(n, x, NULL, f_data)`.
* Every later point comes from `P`, an ARBITRARY state machine (arbitrary state type).  It stands for the placement of the
  initial simplex (`xstep`, `lb`, `ub`) and for `reflectpt` (reflection / expansion / contraction / shrink coordinates,
  pinning to the bounds), none of which is modelled.  After every answer `P` is shown the driver state in which the
  evaluation was made (BEFORE its bookkeeping: the proposal decides the `stuck` flag that `NmDrv.step` reads, so it cannot
  be shown the state after; that state is a function of what `P` sees and of its own answer), the point just evaluated
  and the complete answer, and returns

      some x   the next point to evaluate, should the driver ask for one;
      none     the next proposal is DEGENERATE (`reflectpt` returns 0, resp. `close(pt[1+i], x[i])` in the initial
               simplex): the driver returns XTOL_REACHED resp. FAILURE WITHOUT a further evaluation, unless a stopping
               test fires first.  This is the `stuck` flag of `NmDrv.Ev`, attached to the event just made.

  `NmDrv.step` continues only if the flag is `false` (`NmAlgLemmas.step_cont_not_stuck`), so the fallback point `[]` of
  `Option.getD` below is never evaluated.
* Every query is `{ fn := .obj, x := point, wantGrad := false }` (`f(n, x, NULL, f_data)`).
* After an answer the machine does exactly `NmDrv.step O A c`; if it is `.done r` the machine returns the `AlgResult`
  dictated by `r`: `ret`, `x`, `minf := r.minf.getD +Inf` (what the memory cell `*minf` holds: `nlopt_optimize_` stores
  `HUGE_VAL` in it before the dispatch), `numevals := c.s.nevals + r.nevals` (`*stop->nevals_p`: the counter on entry,
  which `nlopt_optimize` resets to 0, plus the evaluations of this call).

`valOf`, `forcedOf`, `qOf` (value of an answer, `nlopt_stop_forced` after an answer, the shape of a query) are those of
`Model/EschAlg.lean`; see there for the discussion of the force-stop flag.
-/
namespace Nlopt.NmAlg
open Nlopt Nlopt.NmDrv
open Nlopt.EschAlg (valOf forcedOf qOf)

/-- the `NmDrv` event of one (query, answer) pair of a trace; `stuck` = the proposal computed after it is degenerate -/
def evOf (stuck : Bool) (p : Query × Answer) : Ev :=
  { x := p.1.x, f := valOf p.2, forced := forcedOf p.2, stuck := stuck }

/-- the events of a trace none of whose evaluations was followed by a degenerate proposal -/
def ev0 (tr : List (Query × Answer)) : List Ev := tr.map (evOf false)

/-- The `NmDrv` events of a trace: the driver goes on after an evaluation only if the proposal that follows is not
    degenerate, so all `stuck` flags are `false` except possibly the last one, `b` (the counterpart of `end 1` in the line
    protocol of `Model/NmDriver.lean`). -/
def events (tr : List (Query × Answer)) (b : Bool) : List Ev :=
  ev0 tr.dropLast ++ (tr.getLast?.toList.map (evOf b))

/-- The unmodelled part of Nelder-Mead (initial simplex, `reflectpt`): an arbitrary state machine.
    `next ps st x a`: `st` = driver state in which the evaluation just made was issued, `x` = the point just evaluated,
    `a` = the complete answer; returns the new proposer state and the NEXT proposal (`none` = degenerate). -/
structure Proposer where
  PS : Type
  init : PS
  next : PS → NmDrv.St → List F64 → Answer → PS × Option (List F64)

/-- an arbitrary function of the whole history (all (point, answer) pairs so far, oldest first) is a proposer -/
def Proposer.ofHistory (g : List (List F64 × Answer) → Option (List F64)) : Proposer :=
  { PS := List (List F64 × Answer), init := [],
    next := fun h _ x a => (h ++ [(x, a)], g (h ++ [(x, a)])) }

/-- state of the machine: driver state, proposer state, the point of the outstanding (or first) query -/
structure S (P : Proposer) where
  drv : NmDrv.St
  ps : P.PS
  cur : List F64

/-- the state `nldrmd_minimize` waits in for `f(x0)` (`NmDrv.start` in wrapper mode) -/
def stW (c : Cfg) : NmDrv.St := ⟨0, c.x0, F64.posInf, false, [], F64.zero, .first, []⟩

/-- what the memory cell `*minf` holds on return (`HUGE_VAL` on entry) -/
def Res.minfMem (r : Res) : F64 := r.minf.getD F64.posInf

/-- what `nldrmd_minimize` hands back, as an `AlgResult` -/
def toAlgResult (c : Cfg) (r : Res) : AlgResult :=
  { ret := r.ret, x := r.x, minf := Res.minfMem r, numevals := c.s.nevals + (r.nevals : Int) }

def stepS (O : Ord) (A : Arith) (P : Proposer) (c : Cfg) (s : S P) : Option Answer → S P × (Query ⊕ AlgResult)
  | none => (s, .inl (qOf s.cur))                         -- `*minf = f(n, x, NULL, f_data)` at the caller's point
  | some a =>
    let pn := P.next s.ps s.drv s.cur a
    match NmDrv.step O A c s.drv (evOf pn.2.isNone (qOf s.cur, a)) with
    | .done r => (s, .inr (toAlgResult c r))
    | .cont st' => ({ drv := st', ps := pn.1, cur := pn.2.getD [] }, .inl (qOf (pn.2.getD [])))

/-- The Nelder-Mead driver as an `Alg`. -/
@[reducible] def mk (O : Ord) (A : Arith) (P : Proposer) (c : Cfg) : Alg :=
  { S := S P,
    init := { drv := stW c, ps := P.init, cur := c.x0 },
    step := stepS O A P c }

end Nlopt.NmAlg
