import NloptModel.Model.F64
/-! Model of `src/util/stop.c`: the shared stopping predicates. The clock is an argument. -/
namespace Nlopt

structure Stopping where
  n : Nat
  minfMax : F64
  ftolRel : F64
  ftolAbs : F64
  xtolRel : F64
  xtolAbs : Option (List F64)
  xWeights : Option (List F64)
  nevals : Int
  maxeval : Int
  maxtime : F64
  start : F64
  forceStop : Int
  deriving Inhabited

namespace Stop

/-- `nlopt_stop_evals` -/
def evals (maxeval nevals : Int) : Bool := decide (maxeval > 0) && decide (nevals ≥ maxeval)

/-- `nlopt_stop_time_(start, maxtime)` with `nlopt_seconds()` = `now` -/
def time (A : Arith) (start maxtime now : F64) : Bool :=
  F64.gt maxtime F64.zero && F64.ge (A.sub now start) maxtime

def evalstime (A : Arith) (s : Stopping) (now : F64) : Bool :=
  evals s.maxeval s.nevals || time A s.start s.maxtime now

def forced (s : Stopping) : Bool := decide (s.forceStop ≠ 0)

def half : F64 := ⟨0x3FE0000000000000⟩

/-- `relstop(vold, vnew, reltol, abstol)` -/
def relstop (A : Arith) (vold vnew reltol abstol : F64) : Bool :=
  if vold.isInf then false
  else
    let d := (A.sub vnew vold).abs
    F64.lt d abstol
      || F64.lt d (A.mul (A.mul reltol (A.add vnew.abs vold.abs)) half)
      || (F64.gt reltol F64.zero && F64.feq vnew vold)

def ftol (A : Arith) (s : Stopping) (f oldf : F64) : Bool := relstop A oldf f s.ftolRel s.ftolAbs

def f (A : Arith) (s : Stopping) (fv oldf : F64) : Bool := F64.le fv s.minfMax || ftol A s fv oldf

def sc (A : Arith) (x smin smax : F64) : F64 := A.add smin (A.mul x (A.sub smax smin))

/-- `vector_norm` without scaling -/
def vectorNorm (A : Arith) (v : List F64) (w : Option (List F64)) : F64 :=
  match w with
  | some w => (List.zip v w).foldl (fun r p => A.add r (A.mul p.2 p.1.abs)) F64.zero
  | none => v.foldl (fun r x => A.add r x.abs) F64.zero

def diffNorm (A : Arith) (x oldx : List F64) (w : Option (List F64)) : F64 :=
  match w with
  | some w => (List.zip (List.zip x oldx) w).foldl (fun r p => A.add r (A.mul p.2 (A.sub p.1.1 p.1.2).abs)) F64.zero
  | none => (List.zip x oldx).foldl (fun r p => A.add r (A.sub p.1 p.2).abs) F64.zero

/-- `nlopt_stop_x` -/
def x (A : Arith) (s : Stopping) (xv oldx : List F64) : Bool :=
  if F64.lt (diffNorm A xv oldx s.xWeights) (A.mul s.xtolRel (vectorNorm A xv s.xWeights)) then true
  else match s.xtolAbs with
    | none => false
    | some ta => (List.zip (List.zip xv oldx) ta).all fun p => !(F64.ge (A.sub p.1.1 p.1.2).abs p.2)

/-- `nlopt_stop_dx` -/
def dx (A : Arith) (s : Stopping) (xv dxv : List F64) : Bool :=
  if F64.lt (vectorNorm A dxv s.xWeights) (A.mul s.xtolRel (vectorNorm A xv s.xWeights)) then true
  else match s.xtolAbs with
    | none => false
    | some ta => (List.zip dxv ta).all fun p => !(F64.ge p.1.abs p.2)

/-- `nlopt_optimize_limited`: which limits are in force during the nested call -/
def limitedMaxeval (save maxeval : Int) : Int :=
  if save ≤ 0 ∨ (maxeval > 0 ∧ maxeval < save) then maxeval else save

def limitedMaxtime (save maxtime : F64) : F64 :=
  if F64.le save F64.zero || (F64.gt maxtime F64.zero && F64.lt maxtime save) then maxtime else save

end Stop
end Nlopt
