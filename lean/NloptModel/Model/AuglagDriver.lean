import NloptModel.Model.F64
import NloptModel.Model.Stop
/-!
# Control-flow model of `auglag_minimize` (src/algs/auglag/auglag.c), the driver of NLOPT_AUGLAG / NLOPT_AUGLAG_EQ /
# NLOPT_L{N,D}_AUGLAG / NLOPT_L{N,D}_AUGLAG_EQ

`run A c evs` consumes the sequence of EVENTS seen by the outer augmented-Lagrangian loop and decides, exactly like the C
code, after every event whether `auglag_minimize` goes on (and with which kind of event) or returns, with which result
code, which `x` and which `*minf`.

## The two kinds of events

    Ev.eval x f stop hs gs     one of auglag_minimize's OWN evaluations of the user's functions at the point `x`
                               (`xcur`): the objective callback `f(n, xcur, NULL, f_data)` returning `f`, then the
                               callbacks of the penalised EQUALITY constraints (`d.p` objects, result vectors `hs`, one
                               vector per constraint object, in order), then the callbacks of the penalised INEQUALITY
                               constraints (`d.m` objects, result vectors `gs`).  This order (objective, h, fc) is the
                               same in the block before the loop (auglag.c lines 145-179 of HEAD) and in the loop (210-245).
                               With `sub_has_fc` (the `_EQ` variants) the inequality constraints are handed to the
                               subsidiary optimizer, `d.m = 0`, `gtol = []`, `gs = []`.
                               `stop` = 0: `nlopt_stop_forced` was false at every test made during this event;
                                        j >= 1: the j-th forced-stop test of this event is the first that saw the flag:
                                          1            the test right after the objective callback (lines 149 / 212)
                                          1+k (k>=1)   the test right after the k-th constraint callback, equality
                                                       constraints first, then the inequality constraints
                                          > 1+p+m      no callback test saw it (asynchronous `nlopt_force_stop` after the
                                                       last callback): in the loop it is seen by the test after the
                                                       incumbent rule (line 280); in the block before the loop there is
                                                       no such test: the flag stays set (see `St.flag`).
                               If the flag is ALREADY set when the event starts (it was set during the preceding
                               subsidiary run, which nevertheless returned a code that does not end the loop) the
                               objective callback is still made, the test after it sees the flag and the field `stop` of
                               the event is ignored (the model uses 1).
    Ev.sub ret x fsub used forced
                               one call of `nlopt_optimize_limited` on the augmented objective returned `ret` (any
                               nlopt_result), leaving `x` in `xcur` and `fsub` in `fcur` (`fcur` is overwritten by the
                               own evaluation that follows, so `fsub` influences nothing), having made `used` calls of
                               the augmented objective `auglag()` (each increments `*stop->nevals_p`);
                               `forced` = the force-stop flag is set when the call returns.

The subsidiary optimizer is NOT modelled.  What the model computes with the `Arith` parameter exactly as the C code:
`penalty`, `feasible` (`penFeas`), `con2` and the initial `rho` (`rho0`), `ICM`, the multiplier updates `lambda`, `mu`
with their clamps, the update of `rho` (`gam`, `tau`), the incumbent rule (`accepts`; `*minf`, `minf_penalty`,
`minf_feasible`, the copy into `x`), the tests made on acceptance (stopval `<`, `nlopt_stop_ftol`, `nlopt_stop_x`), the
forced-stop tests and their order, the ROUNDOFF_LIMITED path (a subsidiary return of -4 does not end the loop: the point
is evaluated and offered to the incumbent rule, then -4 is returned), every other negative subsidiary code (returned at
once), the evaluation-budget tests (`nlopt_stop_evals` at the top of the loop and after the incumbent rule), the
`ICM == 0` exit (FTOL_REACHED), and the remaining budget `stop->maxeval - *(stop->nevals_p)` handed to every subsidiary
run (`Res.subs`).  The accumulators of the C loops (`penalty`/`feasible`, `con2`, `ICM`/`lambda`/`mu`) do not influence
each other, so the model computes them by separate folds over the same data in the same order; this is the same
arithmetic.  NaN: every comparison is the IEEE one (false on NaN); nothing here depends on an order that NaN could make
inconsistent, so the model is exact for NaN values too.

The loop-top test `nlopt_stop_evals` is evaluated by the model right after the event that precedes it (the initial
evaluation, or the end of a loop pass, where it repeats the test just made with an unchanged counter), so that a `short`
run is exactly a run that waits for its next event.

## Result

    Res.ret        nlopt_result (0 = placeholder of a short / malformed run)
    Res.nevals     the value of `*stop->nevals_p` = own evaluations + sum of `used`
    Res.nevents    number of events consumed
    Res.x, minf    the caller's `x` and `*minf` (`*minf = HUGE_VAL` is written on entry, so never `none`)
    Res.short      the events ran out before the driver returned
    Res.malformed  the next event was not one the driver could have produced: wrong kind (a `sub` where an own
                   evaluation is due or conversely), an initial own evaluation at a point other than `x0`, or an own
                   evaluation at a point other than the `x` left by the preceding `sub`.  The offending event is not
                   consumed.
    Res.subs       for every consumed `sub` event, in order: (the budget `maxeval - nevals` handed to
                   `nlopt_optimize_limited`, `used`)
    Res.log        the own evaluations that were completely processed (all callbacks made, incumbent rule applied)

Events are expected to have the shape of the configuration (`hs` like `htol`, `gs` like `gtol`); the model is total
anyway: a missing component reads as `+0.0` (C would read stale memory), surplus components are ignored.

## Validation

The model was compared bit for bit with `auglag_minimize` compiled from the unchanged HEAD sources (replay/src) and a
mock subsidiary optimizer on 30 000 scripted pseudo-random runs (replay/auglag_replay.c, replay/compare.sh: every result
code, NaN/Inf/underflow values, vector constraints, `_EQ` variants, stops raised in every callback position and inside the
subsidiary run, subsidiary runs that ignore their budget, maxeval <= 0), including the budgets handed to
`nlopt_optimize_limited`; the concrete witnesses of Props/DrvAuglag.lean were replayed on the C code as well
(replay/auglag_script.c drives `auglag_minimize` from a protocol file, replay/witnesses.txt).  A stop that is seen only by
the late test of a loop pass cannot be produced from a callback and was not replayed.

Note on the argument order: `Ev.eval x f stop hs gs` lists the EQUALITY results `hs` before the inequality results `gs`,
as the callbacks are made and as the `eval` line of the protocol does.

## Not modelled

The subsidiary optimizer and `nlopt_optimize_limited` itself (only `Stop.limitedMaxeval` of Model/Stop.lean describes how
the budget is combined with the subsidiary object's own maxeval); the setup calls on `sub_opt` at entry (they can fail —
e.g. `nlopt_add_inequality_constraint` on a subsidiary algorithm without inequality support returns INVALID_ARGS — and
then `auglag_minimize` returns that code BEFORE writing `*minf`; the model assumes they succeed); malloc failure; the
time limit (maxtime = 0); `int` overflow of the counters; the value of the augmented objective `auglag()`; verbose
output.  The compiler is assumed not to contract `a + b*c` into a fused multiply-add (default x86-64 builds do not):
`lambda + rho*h`, `mu + rho*fc`, `con2 += h*h` are modelled as a rounded product followed by a rounded sum.
`auglag_minimize` sees the problem after the `maximize` sign flip of `nlopt_optimize`; `Cfg`, events and `Res` are at the
level of `auglag_minimize`.

## Line protocol (`nlopt_model auglag`)

Tokens are separated by one space.  A double is 16 lower-case hex digits (its bits).  `<vec>` = comma separated doubles,
`-` for the empty/absent vector.  `<vecs>` = `<vec>`s separated by `;` (one per constraint object), `-` for none.

    cfg key=value ...      starts a new run (resets everything), prints nothing.  Keys (all optional, any order):
        n=<nat>            dimension (default 0)
        maxeval=<int>      (default 0 = no limit)
        stopval=<double>   minf_max (default fff0000000000000 = -Inf)
        ftol_rel= ftol_abs= xtol_rel=<double>   (default 0)
        xtol_abs=<vec|->   `-`/absent = NULL pointer
        xw=<vec|->         x_weights, `-`/absent = NULL pointer
        x0=<vec>           the caller's x on entry
        htol=<vecs|->      tolerances of the penalised equality constraints, one vector per constraint object
        gtol=<vecs|->      tolerances of the penalised inequality constraints (`-` for the `_EQ` variants)
    eval <xvec> <f> <stop> <hs|-> <gs|->
                           appends an own evaluation, prints nothing (`<stop>` decimal, see above; `<hs>`, `<gs>` are
                           `<vecs>` and may be omitted from the right)
    sub <ret> <xvec> <fsub> <used> <0|1>
                           appends a subsidiary run, prints nothing (`<ret>`, `<used>` decimal)
    end                    prints `<ret> <nevals_total> <xvec> <minf hex or -> <short 0|1> <malformed 0|1>`
    budgets                prints the budgets handed to the consumed `sub` events, comma separated decimals, `-` if none
    anything else          prints `bad-op`

Worked example (n = 1, one scalar inequality constraint with tolerance 0, maxeval = 10; initial evaluation at x0 = 0:
f = 1, g = 1 (infeasible); the subsidiary run returns 4 (XTOL_REACHED) at x = 1 after 5 evaluations; own evaluation at
x = 1: f = 2, g = -1 (feasible, ICM = |max(-1, -mu/rho)| = 0 because mu = 0, rho = 2)):

    cfg n=1 maxeval=10 x0=0000000000000000 gtol=0000000000000000
    eval 0000000000000000 3ff0000000000000 0 - 3ff0000000000000
    sub 4 3ff0000000000000 4000000000000000 5 0
    eval 3ff0000000000000 4000000000000000 0 - bff0000000000000
    end
    budgets

prints `3 7 3ff0000000000000 4000000000000000 0 0` (FTOL_REACHED through `ICM == 0` after 7 evaluations, the feasible
point x = 1 with f = 2) and `9` (the subsidiary run was handed 10 - 1 = 9 evaluations).
-/
namespace Nlopt.AuglagDrv
open Nlopt

/-- one event of the outer loop (see the file header) -/
inductive Ev where
  | eval (x : List F64) (f : F64) (stop : Nat) (hs : List (List F64)) (gs : List (List F64))
  | sub (ret : Int) (x : List F64) (fsub : F64) (used : Nat) (forced : Bool)
  deriving DecidableEq, Inhabited

/-- what the control flow of `auglag_minimize` reads.  Of `stop : Stopping` the fields `minfMax, ftolRel, ftolAbs,
    xtolRel, xtolAbs, xWeights, maxeval` are used; `n, nevals, maxtime, start, forceStop` are ignored.
    `htol` / `gtol`: the tolerance vectors of the constraint objects that auglag penalises itself (`d.p`, `d.m`). -/
structure Cfg where
  n : Nat
  x0 : List F64
  htol : List (List F64) := []
  gtol : List (List F64) := []
  stop : Stopping

structure Res where
  ret : Int
  nevals : Nat
  nevents : Nat
  x : List F64
  minf : Option F64
  short : Bool
  malformed : Bool
  subs : List (Int × Nat)
  log : List Ev
  deriving DecidableEq, Inhabited

namespace Ev
def isEval : Ev → Bool
  | .eval .. => true
  | .sub .. => false
def xv : Ev → List F64
  | .eval x .. => x
  | .sub _ x .. => x
/-- objective value of an own evaluation (`fsub` for a subsidiary run) -/
def fv : Ev → F64
  | .eval _ f .. => f
  | .sub _ _ f .. => f
def stopNo : Ev → Nat
  | .eval _ _ s .. => s
  | .sub .. => 0
def hsv : Ev → List (List F64)
  | .eval _ _ _ hs _ => hs
  | .sub .. => []
def gsv : Ev → List (List F64)
  | .eval _ _ _ _ gs => gs
  | .sub .. => []
/-- evaluations of the user's objective made during the event -/
def cost : Ev → Nat
  | .eval .. => 1
  | .sub _ _ _ used _ => used
end Ev

/-! ## constants of auglag.c -/

def tau : F64 := ⟨0x3FE0000000000000⟩        -- 0.5
def gam : F64 := ⟨0x4024000000000000⟩        -- 10
def ten : F64 := ⟨0x4024000000000000⟩
def two : F64 := ⟨0x4000000000000000⟩
def oneEm6 : F64 := ⟨0x3EB0C6F7A0B5ED8D⟩     -- 1e-6
def lamMin : F64 := ⟨0xC415AF1D78B58C40⟩     -- -1e20
def lamMax : F64 := ⟨0x4415AF1D78B58C40⟩     -- 1e20
def muMax : F64 := ⟨0x4415AF1D78B58C40⟩      -- 1e20

/-! ## the data of one own evaluation -/

/-- (`penalty`, `feasible`) -/
abbrev PF := F64 × Bool

/-- iterate over the constraint objects: `tols` fixes how many, `res` are the result vectors read from `restmp` -/
def objs {α : Type} (f : α → List F64 → List F64 → α) : α → List (List F64) → List (List F64) → α
  | a, [], _ => a
  | a, t :: ts, rs => objs f (f a t (rs.headD [])) ts rs.tail

/-- components of one equality constraint: `penalty += fabs(hi); feasible = feasible && fabs(hi) <= tol[k];` -/
def penH (A : Arith) : PF → List F64 → List F64 → PF
  | a, [], _ => a
  | a, t :: ts, rs =>
    let hi := rs.headD F64.zero
    penH A (A.add a.1 hi.abs, a.2 && F64.le hi.abs t) ts rs.tail

/-- components of one inequality constraint: `penalty += fci > 0 ? fci : 0; feasible = feasible && fci <= tol[k];` -/
def penG (A : Arith) : PF → List F64 → List F64 → PF
  | a, [], _ => a
  | a, t :: ts, rs =>
    let g := rs.headD F64.zero
    penG A (A.add a.1 (if F64.gt g F64.zero then g else F64.zero), a.2 && F64.le g t) ts rs.tail

/-- `penalty` and `feasible` of an own evaluation: the same statements in the initial block and in the loop -/
def penFeas (A : Arith) (c : Cfg) (hs gs : List (List F64)) : PF :=
  objs (penG A) (objs (penH A) (F64.zero, true) c.htol hs) c.gtol gs

/-- `con2 += hi * hi` -/
def con2H (A : Arith) : F64 → List F64 → List F64 → F64
  | a, [], _ => a
  | a, _ :: ts, rs =>
    let hi := rs.headD F64.zero
    con2H A (A.add a (A.mul hi hi)) ts rs.tail

/-- `if (fci > 0) con2 += fci * fci` -/
def con2G (A : Arith) : F64 → List F64 → List F64 → F64
  | a, [], _ => a
  | a, _ :: ts, rs =>
    let g := rs.headD F64.zero
    con2G A (if F64.gt g F64.zero then A.add a (A.mul g g) else a) ts rs.tail

def con2 (A : Arith) (c : Cfg) (hs gs : List (List F64)) : F64 :=
  objs (con2G A) (objs (con2H A) F64.zero c.htol hs) c.gtol gs

/-- `d.rho = (con2 > 0) ? MAX(1e-6, MIN(10, 2 * fabs(*minf) / con2)) : 10` -/
def rho0 (A : Arith) (f c2 : F64) : F64 :=
  if F64.gt c2 F64.zero then F64.cmax oneEm6 (F64.cmin ten (A.div (A.mul two f.abs) c2)) else ten

/-- one equality constraint object in the loop; the state is `ICM`, the output the new `lambda` entries:
    `newlam = lambda[ii] + rho*hi; ICM = MAX(ICM, fabs(hi)); lambda[ii++] = MIN(MAX(lam_min, newlam), lam_max);` -/
def lamObj (A : Arith) (rho : F64) : F64 → List F64 → List F64 → List F64 → F64 × List F64
  | icm, [], _, _ => (icm, [])
  | icm, _ :: ts, rs, ls =>
    let hi := rs.headD F64.zero
    let r := lamObj A rho (F64.cmax icm hi.abs) ts rs.tail ls.tail
    (r.1, F64.cmin (F64.cmax lamMin (A.add (ls.headD F64.zero) (A.mul rho hi))) lamMax :: r.2)

/-- one inequality constraint object in the loop:
    `newmu = mu[ii] + rho*fci; ICM = MAX(ICM, fabs(MAX(fci, -mu[ii]/rho))); mu[ii++] = MIN(MAX(0.0, newmu), mu_max);` -/
def muObj (A : Arith) (rho : F64) : F64 → List F64 → List F64 → List F64 → F64 × List F64
  | icm, [], _, _ => (icm, [])
  | icm, _ :: ts, rs, ms =>
    let g := rs.headD F64.zero
    let m := ms.headD F64.zero
    let r := muObj A rho (F64.cmax icm (F64.cmax g (A.div m.neg rho)).abs) ts rs.tail ms.tail
    (r.1, F64.cmin (F64.cmax F64.zero (A.add m (A.mul rho g))) muMax :: r.2)

/-- iterate a multiplier update over the constraint objects -/
def multObjs (obj : F64 → List F64 → List F64 → List F64 → F64 × List F64) :
    F64 → List (List F64) → List (List F64) → List (List F64) → F64 × List (List F64)
  | icm, [], _, _ => (icm, [])
  | icm, t :: ts, rs, ls =>
    let r := obj icm t (rs.headD []) (ls.headD [])
    let r' := multObjs obj r.1 ts rs.tail ls.tail
    (r'.1, r.2 :: r'.2)

/-! ## the state -/

/-- what the driver does next -/
inductive Phase where
  | init                                         -- the own evaluation before the loop (only with penalised constraints)
  | sub                                          -- top of the loop passed: `nlopt_optimize_limited`
  | eval (subRet : Int) (xcur : List F64)        -- the own evaluation that follows a subsidiary run
  deriving DecidableEq

structure St where
  nev : Nat := 0                  -- `*stop->nevals_p`
  cnt : Nat := 0                  -- events consumed
  x : List F64                    -- the caller's array
  minf : F64 := F64.posInf        -- `*minf`
  mpen : F64 := F64.posInf        -- `minf_penalty`
  mfeas : Bool := false           -- `minf_feasible`
  rho : F64 := F64.one            -- `d.rho`
  lam : List (List F64) := []     -- `d.lambda`, shaped like `htol`
  mu : List (List F64) := []      -- `d.mu`, shaped like `gtol`
  icm : F64 := F64.posInf         -- `ICM`
  flag : Bool := false            -- the force-stop flag is set but no test of auglag_minimize has seen it yet
  subs : List (Int × Nat) := []
  log : List Ev := []

def St.res (s : St) (ret : Int) (short malformed : Bool) : Res :=
  ⟨ret, s.nev, s.cnt, s.x, some s.minf, short, malformed, s.subs, s.log⟩

inductive Next where
  | cont (ph : Phase) (s : St)
  | done (ret : Int) (s : St)
  | bad

/-- number of constraint callbacks of an own evaluation (`d.p + d.m`) -/
def ncb (c : Cfg) : Nat := c.htol.length + c.gtol.length

/-- `d.p > 0 || d.m > 0` -/
def constrained (c : Cfg) : Bool := decide (0 < ncb c)

/-- the flag is seen by one of the tests that follow a callback: `ret = NLOPT_FORCED_STOP; goto done;` -/
def cbStop (c : Cfg) (k : Nat) : Bool := decide (1 ≤ k) && decide (k ≤ 1 + ncb c)

/-- `penalty`, `feasible` of an event -/
def Ev.pf (A : Arith) (c : Cfg) (e : Ev) : PF := penFeas A c e.hsv e.gsv
def Ev.pen (A : Arith) (c : Cfg) (e : Ev) : F64 := (e.pf A c).1
def Ev.feas (A : Arith) (c : Cfg) (e : Ev) : Bool := (e.pf A c).2

/-- top of the loop: `if (nlopt_stop_evals(stop)) {ret = NLOPT_MAXEVAL_REACHED; break;}` (line 196) -/
def loopTop (c : Cfg) (s : St) : Next :=
  if Stop.evals c.stop.maxeval (s.nev : Int) then .done 5 s else .cont .sub s

/-- the memory after the completely evaluated own evaluation before the loop (lines 145-179): the point is recorded
    unconditionally (`x` already holds it); a flag raised after the last callback test is seen by nobody yet -/
def procInit (A : Arith) (c : Cfg) (s : St) (e : Ev) : St :=
  { s with nev := s.nev + 1, cnt := s.cnt + 1
           minf := e.fv, mpen := e.pen A c, mfeas := e.feas A c          -- lines 175-177
           rho := rho0 A e.fv (con2 A c e.hsv e.gsv)                      -- line 178
           flag := e.stopNo != 0, log := s.log ++ [e] }

/-- the own evaluation before the loop (lines 145-179), then the top of the loop -/
def stepInit (A : Arith) (c : Cfg) (s : St) (e : Ev) : Next :=
  if e.xv ≠ s.x then .bad
  else if cbStop c e.stopNo then .done (-5) { s with nev := s.nev + 1, cnt := s.cnt + 1 }   -- lines 149, 155, 166
  else loopTop c (procInit A c s e)

/-- `nlopt_optimize_limited` returned (lines 199-208) -/
def stepSub (c : Cfg) (s : St) (ret : Int) (x : List F64) (used : Nat) (forced : Bool) : Next :=
  let s1 := { s with nev := s.nev + used, cnt := s.cnt + 1, flag := s.flag || forced
                     subs := s.subs ++ [(c.stop.maxeval - (s.nev : Int), used)] }
  if ret < 0 ∧ ret ≠ -4 then .done ret s1 else .cont (.eval ret x) s1

/-- the incumbent rule (lines 261-263):
    `(feasible && (!minf_feasible || penalty < minf_penalty || fcur < *minf)) || (!minf_feasible && penalty < minf_penalty)` -/
def accepts (s : St) (pf : PF) (f : F64) : Bool :=
  (pf.2 && (!s.mfeas || F64.lt pf.1 s.mpen || F64.lt f s.minf)) || (!s.mfeas && F64.lt pf.1 s.mpen)

/-- `ret` after the tests made inside the acceptance branch (lines 264-271); 1 = still NLOPT_SUCCESS.
    `s` = the state before the copy. -/
def acceptRet (A : Arith) (c : Cfg) (s : St) (x : List F64) (f : F64) (feas : Bool) : Int :=
  if feas then
    if F64.lt f c.stop.minfMax then 2
    else if Stop.ftol A c.stop f s.minf then 3
    else if Stop.x A c.stop x s.x then 4
    else 1
  else 1

/-- `ret` when line 277 (`if (ret != NLOPT_SUCCESS) break;`) would be reached; 1 also when the branch is not taken -/
def accRet (A : Arith) (c : Cfg) (s : St) (e : Ev) : Int :=
  if accepts s (e.pf A c) e.fv then acceptRet A c s e.xv e.fv (e.feas A c) else 1

/-- `ICM` and the new multipliers after the two constraint loops of a loop pass (lines 216-245) -/
def mult (A : Arith) (c : Cfg) (s : St) (e : Ev) : F64 × List (List F64) × List (List F64) :=
  let r1 := multObjs (lamObj A s.rho) F64.zero c.htol e.hsv s.lam
  let r2 := multObjs (muObj A s.rho) r1.1 c.gtol e.gsv s.mu
  (r2.1, r1.2, r2.2)

/-- the memory after a completely evaluated own evaluation of the loop (lines 210-277) -/
def proc (A : Arith) (c : Cfg) (s : St) (e : Ev) : St :=
  let m := mult A c s e
  let acc := accepts s (e.pf A c) e.fv
  { s with nev := s.nev + 1, cnt := s.cnt + 1
           lam := m.2.1, mu := m.2.2, icm := m.1
           rho := if F64.gt m.1 (A.mul tau s.icm) then A.mul s.rho gam else s.rho         -- lines 246-248
           x := if acc then e.xv else s.x, minf := if acc then e.fv else s.minf
           mpen := if acc then e.pen A c else s.mpen, mfeas := if acc then e.feas A c else s.mfeas
           log := s.log ++ [e] }

/-- the number of the forced-stop test that sees the flag during an own evaluation of the loop: when the flag is already
    set (`St.flag`) the test after the objective callback sees it, whatever the event says -/
def effStop (s : St) (e : Ev) : Nat := if s.flag then 1 else e.stopNo

/-- after a completely evaluated own evaluation of the loop: leave the loop with which code (`some`), or go on (`none`).
    In the last case the test at the top of the next pass (line 196) repeats the test of line 282 with an unchanged
    counter: false. -/
def verdict (A : Arith) (c : Cfg) (s : St) (sret : Int) (e : Ev) : Option Int :=
  if accRet A c s e ≠ 1 then some (accRet A c s e)                                -- line 277
  else if effStop s e ≠ 0 then some (-5)                                          -- line 280
  else if sret = -4 then some (-4)                                                -- line 281
  else if Stop.evals c.stop.maxeval ((s.nev + 1 : Nat) : Int) then some 5         -- line 282
  else if F64.feq (mult A c s e).1 F64.zero then some 3                           -- line 294
  else none

/-- the own evaluation of a loop pass (lines 210-294) and the top of the next pass -/
def stepEval (A : Arith) (c : Cfg) (s : St) (sret : Int) (xcur : List F64) (e : Ev) : Next :=
  if e.xv ≠ xcur then .bad
  else if cbStop c (effStop s e) then .done (-5) { s with nev := s.nev + 1, cnt := s.cnt + 1 }   -- lines 212, 222, 235
  else match verdict A c s sret e with
    | some r => .done r (proc A c s e)
    | none => .cont .sub (proc A c s e)

/-- one event -/
def step (A : Arith) (c : Cfg) (ph : Phase) (s : St) (e : Ev) : Next :=
  match ph, e with
  | .init, .eval .. => stepInit A c s e
  | .sub, .sub ret x _ used forced => stepSub c s ret x used forced
  | .eval sret xcur, .eval .. => stepEval A c s sret xcur e
  | _, _ => .bad

/-- the outer loop; when the events run out: `short` -/
def go (A : Arith) (c : Cfg) : Phase → St → List Ev → Res
  | _, s, [] => s.res 0 true false
  | ph, s, e :: es =>
    match step A c ph s e with
    | .cont ph' s' => go A c ph' s' es
    | .done r s' => s'.res r false false
    | .bad => s.res 0 false true

def zeros (l : List (List F64)) : List (List F64) := l.map fun v => v.map fun _ => F64.zero

/-- `*minf = HUGE_VAL`, `ICM = minf_penalty = HUGE_VAL`, `minf_feasible = 0`, `lambda = mu = 0` (memset), `rho = 1`
    (overwritten by the initial evaluation when there are penalised constraints) -/
def St.init (c : Cfg) : St := { x := c.x0, lam := zeros c.htol, mu := zeros c.gtol }

/-- with penalised constraints the driver starts with its own evaluation of `x0`; without, `rho = 1` and the loop is
    entered at once (its first test `nlopt_stop_evals` is false because `*nevals_p = 0`) -/
def startPhase (c : Cfg) : Phase := if constrained c then .init else .sub

/-- `auglag_minimize` (after the setup calls on `sub_opt`) -/
def run (A : Arith) (c : Cfg) (evs : List Ev) : Res := go A c (startPhase c) (St.init c) evs

/-! ## line protocol -/

structure DrvSt where
  cfg : Option Cfg := none
  revs : List Ev := []          -- newest first

def tokens (line : String) : List String := (line.trimAscii.toString.splitOn " ").filter (· ≠ "")

def pF (t : String) : F64 := (F64.ofHex? t).getD F64.zero
def pVec (t : String) : List F64 := if t == "-" || t == "" then [] else (t.splitOn ",").map pF
def pVecs (t : String) : List (List F64) := if t == "-" || t == "" then [] else (t.splitOn ";").map pVec
def pOptVec (t : String) : Option (List F64) := if t == "-" || t == "" then none else some (pVec t)

def kv (toks : List String) (k : String) : String :=
  match toks.find? (·.startsWith (k ++ "=")) with
  | some t => (t.drop (k.length + 1)).toString
  | none => ""

def hexVec (l : List F64) : String := if l.isEmpty then "-" else ",".intercalate (l.map F64.toHex)

def parseCfg (toks : List String) : Cfg :=
  let fl (k : String) (d : F64) : F64 := if kv toks k == "" then d else pF (kv toks k)
  { n := (kv toks "n").toNat?.getD 0
    x0 := pVec (kv toks "x0")
    htol := pVecs (kv toks "htol"), gtol := pVecs (kv toks "gtol")
    stop := { n := (kv toks "n").toNat?.getD 0
              minfMax := fl "stopval" F64.negInf
              ftolRel := fl "ftol_rel" F64.zero, ftolAbs := fl "ftol_abs" F64.zero, xtolRel := fl "xtol_rel" F64.zero
              xtolAbs := pOptVec (kv toks "xtol_abs"), xWeights := pOptVec (kv toks "xw")
              nevals := 0, maxeval := (kv toks "maxeval").toInt?.getD 0
              maxtime := F64.zero, start := F64.zero, forceStop := 0 } }

def showRes (r : Res) : String :=
  let mf := match r.minf with | some m => m.toHex | none => "-"
  s!"{r.ret} {r.nevals} {hexVec r.x} {mf} {if r.short then 1 else 0} {if r.malformed then 1 else 0}"

def showBudgets (r : Res) : String :=
  if r.subs.isEmpty then "-" else ",".intercalate (r.subs.map fun p => toString p.1)

def drvStep (A : Arith) (st : DrvSt) (line : String) : DrvSt × String :=
  let ev (e : Ev) : DrvSt × String := ({ st with revs := e :: st.revs }, "")
  match tokens line with
  | "cfg" :: toks => ({ cfg := some (parseCfg toks), revs := [] }, "")
  | ["eval", x, f, s] => ev (.eval (pVec x) (pF f) (s.toNat?.getD 0) [] [])
  | ["eval", x, f, s, hs] => ev (.eval (pVec x) (pF f) (s.toNat?.getD 0) (pVecs hs) [])
  | ["eval", x, f, s, hs, gs] => ev (.eval (pVec x) (pF f) (s.toNat?.getD 0) (pVecs hs) (pVecs gs))
  | ["sub", r, x, f, u, fo] => ev (.sub (r.toInt?.getD 0) (pVec x) (pF f) (u.toNat?.getD 0) (fo == "1"))
  | ["end"] =>
    match st.cfg with
    | some c => (st, showRes (run A c st.revs.reverse))
    | none => (st, "bad-op")
  | ["budgets"] =>
    match st.cfg with
    | some c => (st, showBudgets (run A c st.revs.reverse))
    | none => (st, "bad-op")
  | _ => (st, "bad-op")

end Nlopt.AuglagDrv
