import NloptModel.Model.F64
/-!
  The population bookkeeping of Controlled Random Search (crs.c), as a fold over the objective values of the evaluated
  points.  How the trial points are chosen (random_trial, local mutation) is the proposer; what decides the result is:

  * `crs_init`: every point of the initial population is inserted into the red-black tree (sorted by value);
  * `crs_trial`: a trial value `f` is ACCEPTED iff `f < worst` (the maximal value in the tree); the worst point is then
    overwritten by the trial point and re-sorted; a rejected trial changes nothing;
  * `crs_minimize`: the result is the minimal value in the tree.

  The population is modelled as the list of its values.
-/
namespace Nlopt.Crs
open Nlopt

/-- maximal value (the `worst` node); `negInf` for an empty population (never queried) -/
def worst : List F64 → F64
  | [] => F64.negInf
  | a :: t => t.foldl (fun m x => if F64.gt x m then x else m) a

/-- minimal value (the `best` node); `posInf` for an empty population -/
def best : List F64 → F64
  | [] => F64.posInf
  | a :: t => t.foldl (fun m x => if F64.lt x m then x else m) a

/-- remove one occurrence of a value (the node that is overwritten) -/
def removeOne (v : F64) : List F64 → List F64
  | [] => []
  | a :: t => if a = v then t else a :: removeOne v t

/-- one trial evaluation: `if (d->p[0] < worst->k[0]) break;` ... `memcpy(worst->k, d->p, ...); resort` -/
def trial (pop : List F64) (f : F64) : List F64 :=
  if F64.lt f (worst pop) then f :: removeOne (worst pop) pop else pop

/-- population after the initial points `init` (all inserted) and the trial values `trials` -/
def run (init trials : List F64) : List F64 := trials.foldl trial init

/-- the value `crs_minimize` reports -/
def result (init trials : List F64) : F64 := best (run init trials)

end Nlopt.Crs
