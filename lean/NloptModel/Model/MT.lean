import NloptModel.Model.F64
import NloptModel.Generated.MTConsts
/-!
  MT19937 as used by NLopt (`src/util/mt19937ar.c`) and the samplers derived from it.

  Two independent descriptions of the generator:

  * `mtImpl` part (`State`, `initGenrand`, `genrandInt32`): the C code as written -- a 624-word
    array updated IN PLACE by three loops when `mti >= N`, `UInt32` wrapping arithmetic,
    `mag01[y & 1]` as a table lookup, the `mti == N+1` "never seeded" sentinel.
  * `mtSpec` part (`X`, `mtSpec`): the Matsumoto--Nishimura linear recurrence on an UNBOUNDED
    sequence, written from the published definition with the seeding recurrence in exact
    natural-number arithmetic reduced mod 2^32:
        X 0        = seed mod 2^32
        X k        = (1812433253 * (X (k-1) xor (X (k-1) >> 30)) + k) mod 2^32     0 < k < 624
        X (k+624)  = X (k+397) xor ((X k)^u | (X (k+1))^l) A
        output i   = temper (X (624 + i))
    `X` is defined by well-founded recursion (mathematically clean, exponentially slow to run);
    `specTable`/`mtSpecExec` is the memoised executable form, proved equal to it in
    `Lemmas/MTLemmas.lean` (`mtSpecExec_eq`).

  Core Lean only (this file is linked into the executable driver).
-/
namespace Nlopt.MT

/-! ## Shared word-level functions -/

/-- tempering, the four C statements `y ^= (y >> 11); y ^= (y << 7) & B; y ^= (y << 15) & C;
    y ^= (y >> 18);` -/
def temper (y0 : UInt32) : UInt32 :=
  let y1 := y0 ^^^ (y0 >>> UInt32.ofNat TEMPER_U)
  let y2 := y1 ^^^ ((y1 <<< UInt32.ofNat TEMPER_S) &&& TEMPER_B)
  let y3 := y2 ^^^ ((y2 <<< UInt32.ofNat TEMPER_T) &&& TEMPER_C)
  y3 ^^^ (y3 >>> UInt32.ofNat TEMPER_L)

/-! ## mtImpl: the C code -/

structure State where
  mt : Array UInt32
  mti : Nat

/-- static storage before any call: `mt` zero-initialised, `mti = N+1` -/
def State.initial : State := ⟨Array.replicate N 0, N + MTI_UNINIT_OFFSET⟩

instance : Inhabited State := ⟨State.initial⟩

/-- body of the seeding loop: `mt[mti] = (1812433253UL * (mt[mti-1] ^ (mt[mti-1] >> 30)) + mti);
    mt[mti] &= 0xffffffffUL;` in wrapping 32-bit arithmetic -/
def initBody (mt : Array UInt32) (i : Nat) : Array UInt32 :=
  mt.set! i (INIT_MULT * (mt[i - 1]! ^^^ (mt[i - 1]! >>> UInt32.ofNat INIT_SHIFT)) + UInt32.ofNat i)

/-- `for (mti = i; mti < N; mti++) body` -/
def initLoop (i : Nat) (mt : Array UInt32) : Array UInt32 :=
  if i < N then initLoop (i + 1) (initBody mt i) else mt
termination_by N - i

/-- `nlopt_init_genrand(s)` acting on an existing array (the C function overwrites the static
    array; it never allocates) -/
def initGenrandOn (mt : Array UInt32) (s : Nat) : State :=
  let mt := mt.set! 0 (UInt32.ofNat (s &&& SEED_MASK))
  ⟨initLoop 1 mt, N⟩

/-- `nlopt_init_genrand(s)`; `s` is the `unsigned long` argument (any natural number) -/
def initGenrand (s : Nat) : State := initGenrandOn (Array.replicate N 0) s

/-- `static uint32_t mag01[2] = {0x0UL, MATRIX_A};` -/
def mag01 : Array UInt32 := #[0x0, MATRIX_A]

/-- one in-place update `y = (mt[kk]&UPPER_MASK)|(mt[nxt]&LOWER_MASK);
    mt[kk] = mt[src] ^ (y >> 1) ^ mag01[y & 0x1UL];` -/
def twistStep (mt : Array UInt32) (kk src nxt : Nat) : Array UInt32 :=
  let y := (mt[kk]! &&& UPPER_MASK) ||| (mt[nxt]! &&& LOWER_MASK)
  mt.set! kk (mt[src]! ^^^ (y >>> 1) ^^^ mag01[(y &&& 0x1).toNat]!)

/-- `for (kk = kk0; kk < N-M; kk++) { ... mt[kk] = mt[kk+M] ^ ... }` -/
def regenLoop1 (kk : Nat) (mt : Array UInt32) : Array UInt32 :=
  if kk < N - M then regenLoop1 (kk + 1) (twistStep mt kk (kk + M) (kk + 1)) else mt
termination_by N - M - kk

/-- `for (; kk < N-1; kk++) { ... mt[kk] = mt[kk+(M-N)] ^ ... }` (`kk + (M-N)` is the int
    expression `kk - 227`; the loop starts at `kk = N-M = 227`, so it is `kk + M - N` in `Nat`) -/
def regenLoop2 (kk : Nat) (mt : Array UInt32) : Array UInt32 :=
  if kk < N - 1 then regenLoop2 (kk + 1) (twistStep mt kk (kk + M - N) (kk + 1)) else mt
termination_by N - 1 - kk

/-- the block regeneration: the two loops and the final word -/
def regenerate (mt : Array UInt32) : Array UInt32 :=
  let mt := regenLoop1 0 mt
  let mt := regenLoop2 (N - M) mt
  twistStep mt (N - 1) (M - 1) 0

/-- `nlopt_genrand_int32()` -/
def genrandInt32 (st : State) : UInt32 × State :=
  let st : State :=
    if st.mti ≥ N then
      let st := if st.mti == N + MTI_UNINIT_OFFSET then initGenrandOn st.mt DEFAULT_SEED else st
      ⟨regenerate st.mt, 0⟩
    else st
  let y := st.mt[st.mti]!
  (temper y, ⟨st.mt, st.mti + 1⟩)

/-- state after `i` calls -/
def stateAfter (st : State) : Nat → State
  | 0 => st
  | i + 1 => (genrandInt32 (stateAfter st i)).2

/-- the `i`-th (0-based) value returned by `nlopt_genrand_int32` starting from `st` -/
def outputAt (st : State) (i : Nat) : UInt32 := (genrandInt32 (stateAfter st i)).1

/-- `mtImpl seed i`: output `i` of the C code after `nlopt_init_genrand(seed)` -/
def mtImpl (seed : Nat) (i : Nat) : UInt32 := outputAt (initGenrand seed) i

/-! ## mtSpec: the published recurrence -/

/-- `x A` of the paper: `x >> 1` if the lowest bit of `x` is 0, `(x >> 1) xor a` otherwise -/
def twist (y : UInt32) : UInt32 :=
  if y.toNat % 2 = 0 then y >>> 1 else (y >>> 1) ^^^ MATRIX_A

/-- `(x_k^u | x_{k+1}^l)`: the most significant bit of the first, the 31 low bits of the second -/
def mixBits (a b : UInt32) : UInt32 := (a &&& UPPER_MASK) ||| (b &&& LOWER_MASK)

/-- the seeding recurrence in exact arithmetic, reduced mod 2^32 -/
def seedNext (prev : UInt32) (k : Nat) : UInt32 :=
  UInt32.ofNat ((INIT_MULT.toNat * (prev ^^^ (prev >>> UInt32.ofNat INIT_SHIFT)).toNat + k) % 4294967296)

/-- the unbounded MT19937 word sequence for `init_genrand(seed)` -/
def X (seed : Nat) (k : Nat) : UInt32 :=
  if k = 0 then UInt32.ofNat (seed % 4294967296)
  else if k < 624 then seedNext (X seed (k - 1)) k
  else
    X seed (k - 624 + 397) ^^^ twist (mixBits (X seed (k - 624)) (X seed (k - 624 + 1)))
termination_by k
decreasing_by all_goals omega

/-- output `i` (0-based) of MT19937 seeded with `init_genrand(seed)` -/
def mtSpec (seed : Nat) (i : Nat) : UInt32 := temper (X seed (624 + i))

/-- next word of the sequence from the table of all earlier ones (`a.size = k`, `a[j] = X j`) -/
def specNext (seed : Nat) (a : Array UInt32) : UInt32 :=
  let k := a.size
  if k = 0 then UInt32.ofNat (seed % 4294967296)
  else if k < 624 then seedNext a[k - 1]! k
  else a[k - 624 + 397]! ^^^ twist (mixBits a[k - 624]! a[k - 624 + 1]!)

/-- memoised table `#[X 0, …, X (n-1)]` -/
def specTable (seed : Nat) : Nat → Array UInt32
  | 0 => Array.mkEmpty 0
  | n + 1 => let a := specTable seed n; a.push (specNext seed a)

/-- executable `mtSpec` (equal to it: `mtSpecExec_eq`) -/
def mtSpecExec (seed : Nat) (i : Nat) : UInt32 := temper (specTable seed (624 + i + 1))[624 + i]!

/-! ## Derived samplers -/

/-- `genrand_res53`: the integer `k` with result `k / 2^53`;
    `a = int32() >> 5`, `b = int32() >> 6`, `(a*67108864.0 + b) * (1.0/9007199254740992.0)` -/
def res53 (a b : UInt32) : Nat :=
  (a >>> UInt32.ofNat RES53_SHIFT_A).toNat * RES53_MUL + (b >>> UInt32.ofNat RES53_SHIFT_B).toNat

/-- 67108864.0 = 2^26 -/
def f64_2p26 : F64 := ⟨0x4190000000000000⟩
/-- 1.0/9007199254740992.0 = 2^-53 (the division is exact; folded at compile time) -/
def f64_2pm53 : F64 := ⟨0x3CA0000000000000⟩
/-- -2.0 -/
def f64_neg2 : F64 := ⟨0xC000000000000000⟩

/-- `genrand_res53` at the float level: `(a*67108864.0+b)*(1.0/9007199254740992.0)` with
    `a`, `b` converted from `uint32_t` -/
def res53F (A : Arith) (a b : UInt32) : F64 :=
  let a' := a >>> UInt32.ofNat RES53_SHIFT_A
  let b' := b >>> UInt32.ofNat RES53_SHIFT_B
  A.mul (A.add (A.mul (A.ofInt a'.toNat) f64_2p26) (A.ofInt b'.toNat)) f64_2pm53

/-- `nlopt_urand(a,b)` as a function of the `genrand_res53()` draw `r`: `a + (b - a) * r` -/
def urand (A : Arith) (a b : F64) (r : F64) : F64 := A.add a (A.mul (A.sub b a) r)

/-- `nlopt_iurand(n)` for `n > 0` as a function of the raw draw -/
def iurand (raw : UInt32) (n : Nat) : Nat := raw.toNat % n

/-- `nlopt_iurand(n)` with the C conversions spelled out, `n` any `int`:
    `n` is converted to `uint32_t` (mod 2^32), `% 0` is undefined behaviour (`none`),
    the `uint32_t` remainder is converted back to `int` (two's complement wrap on this ABI). -/
def iurandC (raw : UInt32) (n : Int) : Option Int :=
  let u := (n % 4294967296).toNat
  if u = 0 then none
  else
    let r := raw.toNat % u
    some (if r < 2147483648 then (r : Int) else (r : Int) - 4294967296)

/-- result of one trip through the `do { … } while (s >= 1.0)` body of `nlopt_nrand` -/
inductive NrandStep where
  | retry
  | done (v : F64)
  deriving Inhabited

/-- `s = v1*v1 + v2*v2` -/
def nrandS (A : Arith) (v1 v2 : F64) : F64 := A.add (A.mul v1 v1) (A.mul v2 v2)

/-- `mean + v1 * sqrt(-2 * log(s) / s) * stddev` -/
def nrandValue (A : Arith) (mean stddev v1 s : F64) : F64 :=
  A.add mean (A.mul (A.mul v1 (A.sqrt (A.div (A.mul f64_neg2 (A.log s)) s))) stddev)

/-- one iteration of `nlopt_nrand` as a function of the two `genrand_res53()` draws `r1 r2`:
    `v1 = urand(-1,1); v2 = urand(-1,1); s = v1*v1+v2*v2;` loop again if `s >= 1.0`,
    otherwise `s == 0 ? mean : mean + v1*sqrt(-2*log(s)/s)*stddev`. -/
def nrandBody (A : Arith) (mean stddev r1 r2 : F64) : NrandStep :=
  let v1 := urand A F64.negOne F64.one r1
  let v2 := urand A F64.negOne F64.one r2
  let s := nrandS A v1 v2
  if F64.ge s F64.one then NrandStep.retry
  else if F64.feq s F64.zero then NrandStep.done mean
  else NrandStep.done (nrandValue A mean stddev v1 s)

/-- four raw outputs -> the two `genrand_res53()` draws of one loop trip, and the new state -/
def draw53 (A : Arith) (st : State) : F64 × State :=
  let (a, st) := genrandInt32 st
  let (b, st) := genrandInt32 st
  (res53F A a b, st)

/-- `nlopt_nrand(mean, stddev)` with a bound on the number of loop trips (`none` = bound hit) -/
def nrand (A : Arith) (mean stddev : F64) : Nat → State → Option (F64 × State)
  | 0, _ => none
  | fuel + 1, st =>
    let (r1, st) := draw53 A st
    let (r2, st) := draw53 A st
    match nrandBody A mean stddev r1 r2 with
    | .retry => nrand A mean stddev fuel st
    | .done v => some (v, st)

/-! ## Line-protocol driver -/

def hex8 (w : UInt32) : String :=
  let n := w.toNat
  String.ofList ((List.range 8).map fun i => hexDigit ((n / 16 ^ (7 - i)) % 16))

/-- `k` successive outputs, separated by spaces -/
def nextN : Nat → State → List String → State × List String
  | 0, st, acc => (st, acc.reverse)
  | k + 1, st, acc => let (y, st) := genrandInt32 st; nextN k st (hex8 y :: acc)

/-- xor of all state words -/
def checksum (st : State) : UInt32 := st.mt.foldl (· ^^^ ·) 0

def mtStep (st : State) (line : String) : State × String :=
  match line.trimAscii.toString.splitOn " " with
  | ["seed", s] =>
    match s.toNat? with
    | some n => (initGenrandOn st.mt n, "ok")
    | none => (st, "bad-op")
  | ["next"] => let (y, st) := genrandInt32 st; (st, hex8 y)
  | ["nextn", k] =>
    match k.toNat? with
    | some k => let (st, out) := nextN k st []; (st, " ".intercalate out)
    | none => (st, "bad-op")
  | ["spec", s, i] =>
    match s.toNat?, i.toNat? with
    | some s, some i => (st, hex8 (mtSpecExec s i))
    | _, _ => (st, "bad-op")
  | ["state"] => (st, s!"{st.mti} {hex8 (checksum st)}")
  | _ => (st, "bad-op")

end Nlopt.MT
