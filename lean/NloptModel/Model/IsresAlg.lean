import NloptModel.Model.Run
import NloptModel.Model.IsresDriver
import NloptModel.Model.EschAlg
/-!
# The ISRES driver (`isres_minimize`) as an algorithm machine (`Alg`) — bound-constrained case (m = p = 0)

`Model/IsresDriver.lean` is a control-flow model that CONSUMES a list of evaluations; `Model/Run.lean` / `Model/Wrap.lean`
talk about machines that ISSUE queries to an environment (the user's callbacks behind the wrapper stack of
`nlopt_optimize`).  `IsresAlg.mk A P c` is the bridge: the `IsresDrv` state machine (`verdict` / `post`), driven by the
answers of the environment, with the points supplied by a proposer `P`.

SCOPE.  One `IsresDrv.Ev` is one population member: the objective callback followed by the `m + p` constraint callbacks.
This machine issues ONE query per member, the objective (`fn := .obj`); it is `isres_minimize` for a problem WITHOUT
nonlinear constraints (`c.gtol = []`, `c.htol = []`: the two constraint loops have no iteration).  The event of a
(query, answer) pair has `gs = hs = []` and `stop = 1` (the forced-stop test right after the objective callback, isres.c
line 139, is the only one that follows a callback) when the answer raised the flag, else `0`.  The machine is total and
the refinement theorem holds for EVERY `c`; it is a model of the C driver when `c.gtol = c.htol = []` (hypothesis
`hnocons` of the theorems named `_nocons`).

* `A : Arith` is the rounded arithmetic read by `nlopt_stop_f` / `nlopt_stop_x` (and by the penalty sums).
* `valid c = false` (`population < 1` or an infinite bound): the machine returns `NLOPT_INVALID_ARGS` without issuing any
  query; `*minf` is `+Inf`.
* The first point is the caller's `x` (`c.x0`): `memcpy(xs, x, n)` (member 0 of generation 0).
* Every later point comes from `P`, an ARBITRARY state machine (arbitrary state type) that is shown the driver state
  after the bookkeeping of the evaluation just made, the point just evaluated and the complete answer; this stands for the
  random initial population, the stochastic ranking, survivor selection and mutation, none of which is modelled.
* Every query is `{ fn := .obj, x := point, wantGrad := false }` (`f(n, xs + k*n, NULL, f_data)`).
* After an answer the machine does exactly one pass of `IsresDrv.go`: `verdict` decides `goto done` (then the machine
  returns `(post ..).res r` as an `AlgResult`: `ret`, `x`, `minf`, `numevals := nevals`) or go on (state `post ..`).

`valOf`, `forcedOf`, `qOf` are those of `Model/EschAlg.lean`; see there for the discussion of the force-stop flag.
-/
namespace Nlopt.IsresAlg
open Nlopt Nlopt.IsresDrv
open Nlopt.EschAlg (valOf forcedOf qOf)

/-- the `IsresDrv` event of one (query, answer) pair of a trace (no constraint callbacks) -/
def evOf (p : Query × Answer) : Ev :=
  { x := p.1.x, f := valOf p.2, stop := if forcedOf p.2 then 1 else 0, gs := [], hs := [] }

/-- the `IsresDrv` events of a trace -/
def events (tr : List (Query × Answer)) : List Ev := tr.map evOf

/-- one pass through the body of the evaluation loop: exactly one unfolding of `IsresDrv.go` -/
inductive Step where
  | done (r : Res)
  | cont (s : St)

def step (A : Arith) (c : Cfg) (s : St) (e : Ev) : Step :=
  match verdict A c s e with
  | none => .cont (post A c s e)
  | some r => .done ((post A c s e).res r)

/-- The unmodelled part of ISRES (random initial population, ranking, selection, mutation): an arbitrary state machine.
    `next ps st x a`: `st` = driver state after the bookkeeping of the evaluation just made, `x` = the point just
    evaluated, `a` = the complete answer; returns the new proposer state and the NEXT point to evaluate. -/
structure Proposer where
  PS : Type
  init : PS
  next : PS → IsresDrv.St → List F64 → Answer → PS × List F64

/-- an arbitrary function of the whole history (all (point, answer) pairs so far, oldest first) is a proposer -/
def Proposer.ofHistory (g : List (List F64 × Answer) → List F64) : Proposer :=
  { PS := List (List F64 × Answer), init := [],
    next := fun h _ x a => (h ++ [(x, a)], g (h ++ [(x, a)])) }

/-- state of the machine: driver state, proposer state, the point of the outstanding (or first) query -/
structure S (P : Proposer) where
  drv : IsresDrv.St
  ps : P.PS
  cur : List F64

/-- what the memory cell `*minf` holds on return (`isres_minimize` writes `HUGE_VAL` on entry: never `none`) -/
def Res.minfMem (r : Res) : F64 := r.minf.getD F64.posInf

/-- what `isres_minimize` hands back, as an `AlgResult` -/
def toAlgResult (r : Res) : AlgResult :=
  { ret := r.ret, x := r.x, minf := Res.minfMem r, numevals := r.nevals }

/-- the result of the two INVALID_ARGS tests at entry -/
def invalidRes (c : Cfg) : Res := ⟨-2, 0, c.x0, some F64.posInf, false⟩

def stepS (A : Arith) (P : Proposer) (c : Cfg) (s : S P) : Option Answer → S P × (Query ⊕ AlgResult)
  | none =>
    if valid c then (s, .inl (qOf s.cur))                     -- evaluate the caller's start point (member 0)
    else (s, .inr (toAlgResult (invalidRes c)))               -- INVALID_ARGS before any evaluation
  | some a =>
    match step A c s.drv (evOf (qOf s.cur, a)) with
    | .done r => (s, .inr (toAlgResult r))
    | .cont st' =>
      let pn := P.next s.ps st' s.cur a
      ({ drv := st', ps := pn.1, cur := pn.2 }, .inl (qOf pn.2))

/-- The ISRES driver (no nonlinear constraints) as an `Alg`. -/
@[reducible] def mk (A : Arith) (P : Proposer) (c : Cfg) : Alg :=
  { S := S P,
    init := { drv := St.init c, ps := P.init, cur := c.x0 },
    step := stepS A P c }

end Nlopt.IsresAlg
