import NloptModel.Model.Wrap
/-! S-wrap correspondence driver: replays a recorded run of the real `nlopt_optimize` (the algorithm's
    queries as the hooks saw them, the user's answers) through the wrapper model and prints what the model
    says the user saw, what the algorithm got back, and the final result. -/
namespace Nlopt.WrapDrv
open Nlopt

structure Rec where
  caps : WrapCaps := { elimAlgs := [], memoAlgs := [], finiteAlgs := [], needLocal := [] }
  v : Option CoreView := none
  hasLocal : Bool := false
  x0 : List F64 := []
  optf0 : F64 := F64.zero
  queries : List Query := []
  answers : List Answer := []
  res : Option AlgResult := none
  deriving Inhabited

def hexList (l : List F64) : String := if l.isEmpty then "_" else ",".intercalate (l.map F64.toHex)
def optHex : Option (List F64) → String
  | none => "-"
  | some l => hexList l

def parseList (t : String) : Option (List F64) :=
  if t == "-" then none else if t == "_" then some [] else some ((t.splitOn ",").map fun h => (F64.ofHex? h).getD F64.zero)

def parseNats (t : String) : List Nat := (t.splitOn ",").filterMap String.toNat?

def kv (toks : List String) (k : String) : String :=
  match toks.find? (·.startsWith (k ++ "=")) with
  | some t => (t.drop (k.length + 1)).toString
  | none => ""

def parseCons (t : String) : List ConView :=
  -- items "m:v|s" separated by ';' ; tolerances are not needed by the wrapper model
  if t == "" || t == "_" then [] else (t.splitOn ";").map fun it =>
    match it.splitOn ":" with
    | [m, k] => { m := m.toNat?.getD 1, isVec := k == "v", fid := 1, pre := 0, fdata := 0, tol := none }
    | _ => { m := 1, isVec := false, fid := 1, pre := 0, fdata := 0, tol := none }

def parseObj (toks : List String) : CoreView :=
  let hx (k : String) : F64 := (F64.ofHex? (kv toks k)).getD F64.zero
  { algorithm := (kv toks "alg").toNat?.getD 0, n := (kv toks "n").toNat?.getD 0,
    f := (kv toks "hasf").toNat?.getD 0, fdata := 0, pre := 0, maximize := kv toks "max" == "1",
    params := [], lb := parseList (kv toks "lb"), ub := parseList (kv toks "ub"),
    fc := parseCons (kv toks "fc"), h := parseCons (kv toks "h"), mungeD := false, mungeC := false,
    stopval := hx "stopval", ftolRel := hx "ftol_rel", ftolAbs := hx "ftol_abs", xtolRel := hx "xtol_rel",
    xtolAbs := parseList (kv toks "xtol_abs"), xWeights := parseList (kv toks "xw"),
    maxeval := (kv toks "maxeval").toInt?.getD 0, numevals := (kv toks "numevals").toInt?.getD 0,
    maxtime := hx "maxtime", forceStop := (kv toks "fstop").toInt?.getD 0, pop := (kv toks "pop").toNat?.getD 0,
    vs := (kv toks "vs").toNat?.getD 0, dx := parseList (kv toks "dx") }

def parseFn (t : String) : FnRef :=
  if t == "f" then .obj
  else if t.startsWith "i" then .ineq ((t.drop 1).toString.toNat?.getD 0)
  else .eq ((t.drop 1).toString.toNat?.getD 0)

def fnStr : FnRef → String
  | .obj => "f"
  | .ineq i => s!"i{i}"
  | .eq i => s!"e{i}"

/-- the algorithm that replays the recorded queries and finally returns the recorded result -/
def replayAlg (qs : List Query) (res : AlgResult) : Alg :=
  { S := Nat, init := 0,
    step := fun i _ => match qs[i]? with
      | some q => (i + 1, .inl q)
      | none => (i, .inr res) }

/-- the user that replays the recorded answers -/
def replayUser : Env (List Answer) :=
  { call := fun st _ => match st with
      | a :: rest => (rest, a)
      | [] => ([], { val := [], grad := none }) }

def viewStr (v : CoreView) : String :=
  s!"alg={v.algorithm} n={v.n} max={if v.maximize then 1 else 0} lb={optHex v.lb} ub={optHex v.ub} stopval={v.stopval.toHex}" ++
  s!" ftol_rel={v.ftolRel.toHex} ftol_abs={v.ftolAbs.toHex} xtol_rel={v.xtolRel.toHex} xtol_abs={optHex v.xtolAbs} xw={optHex v.xWeights}" ++
  s!" dx={optHex v.dx} maxeval={v.maxeval} maxtime={v.maxtime.toHex} numevals={v.numevals} fstop={v.forceStop} pop={v.pop} vs={v.vs}" ++
  s!" m={v.fc.length} p={v.h.length}"

def ansStr (a : Answer) : String :=
  s!"{hexList a.val} {optHex a.grad}"

def finish (A : Arith) (r : Rec) : List String :=
  match r.v with
  | none => ["norec"]
  | some v =>
    let res := r.res.getD { ret := 0, x := [], minf := F64.zero, numevals := 0 }
    let out := optimize A r.caps replayUser (fun _ => replayAlg r.queries res) (r.queries.length + 2) v r.hasLocal r.x0 r.optf0 r.answers
    let L := layersOf r.caps v
    let prob := s!"prob x={hexList (if L.elim then shrink L.lb L.ub r.x0 else r.x0)} " ++
      viewStr { innerView v L.maximize L.elim with numevals := 0 }
    match out.1 with
    | none => [prob, "running"]
    | some o =>
      let us := (List.zip o.utrace o.atrace).map fun p =>
        s!"u {fnStr p.1.1.fn} {if p.1.1.wantGrad then 1 else 0} {hexList p.1.1.x} r {ansStr p.2.2}"
      [prob] ++ us ++
      [s!"final ret={o.ret} optf={o.optf.toHex} x={hexList o.x} " ++ viewStr o.after]

def step (A : Arith) (r : Rec) (line : String) : Rec × String :=
  let toks := (line.trimAscii.toString.splitOn " ").filter (· ≠ "")
  match toks with
  | ["wbegin"] => ({ caps := r.caps }, "")
  | ["caps", e, m, f, l] => ({ r with caps := { elimAlgs := parseNats e, memoAlgs := parseNats m, finiteAlgs := parseNats f, needLocal := parseNats l } }, "")
  | "obj" :: rest => ({ r with v := some (parseObj rest), hasLocal := kv rest "haslocal" == "1" }, "")
  | ["x0", x, "optf0", f] => ({ r with x0 := (parseList x).getD [], optf0 := (F64.ofHex? f).getD F64.zero }, "")
  | ["q", fn, g, x, "a", vals, grad, stop] =>
    let q : Query := { fn := parseFn fn, x := (parseList x).getD [], wantGrad := g == "1" }
    let a : Answer := { val := (parseList vals).getD [], grad := parseList grad, stop := if stop == "-" then none else stop.toInt? }
    ({ r with queries := r.queries ++ [q], answers := r.answers ++ [a] }, "")
  | ["res", ret, minf, x, ne] =>
    ({ r with res := some { ret := ret.toInt?.getD 0, minf := (F64.ofHex? minf).getD F64.zero, x := (parseList x).getD [], numevals := ne.toInt?.getD 0 } }, "")
  | ["nores"] => (r, "")
  | ["wend"] => (r, "\n".intercalate (finish A r ++ ["wdone"]))
  | [] => (r, "")
  | _ => (r, "bad-op")

end Nlopt.WrapDrv
