import NloptModel.Model.F64
import NloptModel.Lemmas.F64Order
import NloptModel.Model.Api
import NloptModel.Model.ApiDriver
