import NloptModel.Model.F64
import NloptModel.Lemmas.F64Order
