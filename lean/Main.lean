import NloptModel.Model.ApiDriver
import NloptModel.Model.UtilDriver
import NloptModel.Model.RBTree
import NloptModel.Model.Sobol
import NloptModel.Model.WrapDriver
import NloptModel.Model.Glue
import NloptModel.Model.Slsqp
import NloptModel.Model.Isres
import NloptModel.Model.Crs
import NloptModel.Model.EschDriver
import NloptModel.Model.CrsDriver
import NloptModel.Model.NmDriver
import NloptModel.Model.AuglagDriver
import NloptModel.Model.MlslDriver
import NloptModel.Model.MmaDriver
import NloptModel.Model.IsresDriver
import NloptModel.Model.Rescale
/-! `nlopt_model <stream>`: line-protocol driver.  Reads operation lines on stdin, prints one
    canonical result line per operation.  Arithmetic is the hardware's (through `Float`). -/
open Nlopt

def fl (a : F64) : Float := Float.ofBits a.bits
def lf (x : Float) : F64 := ⟨x.toBits⟩

def nativeArith : Arith where
  add a b := lf (fl a + fl b)
  sub a b := lf (fl a - fl b)
  mul a b := lf (fl a * fl b)
  div a b := lf (fl a / fl b)
  sqrt a := lf (fl a).sqrt
  tanh a := lf (fl a).tanh
  atanh a := lf (fl a).atanh
  pow a b := lf ((fl a).pow (fl b))
  log a := lf (fl a).log
  exp a := lf (fl a).exp
  ofInt i := lf (Float.ofInt i)
  toInt a := (fl a).toInt64.toInt

/-- S-glue stream: `site <id> <lb> <ub> <proposal>` → delivered point -/
def glueStep (A : Arith) (u : Unit) (line : String) : Unit × String :=
  let pl (t : String) : List F64 := (WrapDrv.parseList t).getD []
  match (line.trimAscii.toString.splitOn " ").filter (· ≠ "") with
  | ["site", id, lb, ub, x] =>
    let r := match id with
      | "101" => Glue.xBound A (pl lb) (pl ub) (pl x)
      | "102" | "103" | "104" | "107" | "108" => Glue.clampSite (pl lb) (pl ub) (pl x)
      | "105" => Glue.passSite (pl x)
      | "106" => Glue.zip3 Glue.clampTwo (pl lb) (pl ub) (pl x)
      | _ => []
    (u, WrapDrv.hexList r)
  | ["premax", vpre] => (u, WrapDrv.hexList (Glue.preMax (pl vpre)))
  | _ => (u, "bad-op")

/-- S-inc stream: incumbent rules.  `reset`; `s <f> <feas> <infeas>` (SLSQP event); `i <f> <feas> <penalty> <gpenalty>` (ISRES
    event); `end s` / `end i` print the incumbent: `<minf> <index of the accepted point or -> <feasible flag / penalty>` -/
structure IncSt where
  s : Slsqp.Inc := {}
  i : Isres.Inc := {}
  k : Nat := 0
  crs : List F64 := []        -- CRS population (values), newest first as in Model/Crs.lean

def incStep (st : IncSt) (line : String) : IncSt × String :=
  let hx (t : String) : F64 := ((WrapDrv.parseList t).getD []).headD F64.zero
  let pt (o : Option Nat) : String := match o with | some k => toString k | none => "-"
  match (line.trimAscii.toString.splitOn " ").filter (· ≠ "") with
  | ["reset"] => ({}, "")
  | ["s", f, feas, infeas] =>
    ({ st with s := Slsqp.update st.s { f := hx f, feas := feas == "1", infeas := hx infeas, pt := st.k }, k := st.k + 1 }, "")
  | ["i", f, feas, pen, gpen] =>
    ({ st with i := Isres.update st.i { f := hx f, feas := feas == "1", penalty := hx pen, gpenalty := hx gpen, pt := st.k }, k := st.k + 1 }, "")
  | ["ci", f] => ({ st with crs := st.crs ++ [hx f] }, "")                 -- initial population member (inserted)
  | ["ct", f] => ({ st with crs := Crs.trial st.crs (hx f) }, "")           -- trial evaluation
  | ["end", "c"] => (st, s!"{WrapDrv.hexList [Crs.best st.crs]} {st.crs.length}")
  | ["end", "s"] => (st, s!"{WrapDrv.hexList [st.s.minf]} {pt st.s.pt} {if st.s.feasible then 1 else 0}")
  | ["end", "i"] => (st, s!"{WrapDrv.hexList [st.i.minf]} {pt st.i.pt} {WrapDrv.hexList [st.i.pen]}")
  | _ => (st, "bad-op")

partial def loop {σ : Type} (h : IO.FS.Stream) (out : IO.FS.Stream) (st : σ) (step : σ → String → σ × String) : IO Unit := do
  let line ← h.getLine
  if line.isEmpty then return ()
  let (st', o) := step st line
  if o ≠ "" then out.putStrLn o
  loop h out st' step

def main (args : List String) : IO UInt32 := do
  let stdin ← IO.getStdin
  let stdout ← IO.getStdout
  match args with
  | ["api"] => loop stdin stdout ({} : World) (ApiDrv.step nativeArith); return 0
  | ["mt"] => loop stdin stdout ({} : UtilDrv.MtState) (UtilDrv.mtStep nativeArith); return 0
  | ["rb"] => loop stdin stdout RB.Tree.nil (fun t l => if l.trimAscii.toString == "reset" then (RB.Tree.nil, "ok") else RB.rbStep t l); return 0
  | ["sobol"] => loop stdin stdout Sobol.State.empty Sobol.sobolStep; return 0
  | ["wrap"] => loop stdin stdout ({} : WrapDrv.Rec) (WrapDrv.step nativeArith); return 0
  | ["glue"] => loop stdin stdout () (glueStep nativeArith); return 0
  | ["inc"] => loop stdin stdout ({} : IncSt) incStep; return 0
  | ["stop"] => loop stdin stdout () (UtilDrv.stopStep nativeArith); return 0
  | ["rescale"] => loop stdin stdout () (Rescale.step nativeArith); return 0
  | ["crs"] => loop stdin stdout ({} : CrsDrv.DrvSt) (CrsDrv.drvStep nativeArith); return 0
  | ["nm"] => loop stdin stdout ({} : NmDrv.DrvSt) (NmDrv.drvStep nativeArith); return 0
  | ["auglag"] => loop stdin stdout ({} : AuglagDrv.DrvSt) (AuglagDrv.drvStep nativeArith); return 0
  | ["mlsl"] => loop stdin stdout ({} : MlslDrv.DrvSt) (MlslDrv.drvStep nativeArith); return 0
  | ["mma"] => loop stdin stdout ({} : MmaDrv.DrvSt) (MmaDrv.drvStep nativeArith); return 0
  | ["esch"] => loop stdin stdout ({} : EschDrv.DrvSt) (EschDrv.drvStep nativeArith); return 0
  | ["isres"] => loop stdin stdout ({} : IsresDrv.DrvSt) (IsresDrv.drvStep nativeArith); return 0
  | _ => IO.eprintln "usage: nlopt_model <api|...>"; return 2
