/* h_run_oom: harness/run.c with an allocation-failure oracle around nlopt_optimize.
   spec key failalloc=k: the k-th malloc/calloc/realloc made INSIDE nlopt_optimize (first run of the spec) returns NULL.
   Linked with -Wl,--wrap=malloc,--wrap=calloc,--wrap=realloc (C++ operator new of AGS/StoGO is not intercepted). */
#include <stddef.h>
extern void *__real_malloc(size_t);
extern void *__real_calloc(size_t, size_t);
extern void *__real_realloc(void *, size_t);
static volatile int oom_armed = 0;      /* inside nlopt_optimize */
static volatile long oom_count = 0, oom_fail_at = -1, oom_fired = 0;
static int oom_hit(void)
{
    if (!oom_armed) return 0;
    ++oom_count;
    if (oom_count == oom_fail_at) { ++oom_fired; return 1; }
    return 0;
}
void *__wrap_malloc(size_t sz) { return oom_hit() ? NULL : __real_malloc(sz); }
void *__wrap_calloc(size_t n, size_t s) { return oom_hit() ? NULL : __real_calloc(n, s); }
void *__wrap_realloc(void *p, size_t sz) { return oom_hit() ? NULL : __real_realloc(p, sz); }
#define RUN_OOM 1
#include "run.c"
