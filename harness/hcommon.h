/* helpers shared by the correspondence / monitor harnesses */
#ifndef HCOMMON_H
#define HCOMMON_H
#include <stdio.h>
#include <stdlib.h>
#include <string.h>
#include <stdint.h>
#include <math.h>

static inline uint64_t d2u(double d) { uint64_t u; memcpy(&u, &d, 8); return u; }
static inline double u2d(uint64_t u) { double d; memcpy(&d, &u, 8); return d; }

static inline void phex(FILE *f, double d) { fprintf(f, "%016llx", (unsigned long long) d2u(d)); }

static inline void phexlist(FILE *f, const double *v, int n)
{
    int i;
    if (!v) { fputc('-', f); return; }
    if (n == 0) { fputc('_', f); return; }
    for (i = 0; i < n; ++i) { if (i) fputc(',', f); phex(f, v[i]); }
}

static inline double parsehex(const char *s) { return u2d(strtoull(s, NULL, 16)); }

/* harness allocations are kept reachable from a static table so that a leak checker reports only the library's leaks */
static void *hc_keep_tab[4096];
static int hc_keep_n = 0;
#ifdef HC_KEEP
static inline void *hc_keep(void *p) { if (p && hc_keep_n < 4096) hc_keep_tab[hc_keep_n++] = p; return p; }
#else
static inline void *hc_keep(void *p) { (void) hc_keep_tab; (void) hc_keep_n; return p; }
#endif

/* parse comma separated hex doubles; "-" => NULL (returns -1), "_" => empty */
static inline int parselist(const char *s, double **out)
{
    int n = 0, cap = 8;
    double *v;
    *out = NULL;
    if (!strcmp(s, "-")) return -1;
    v = (double *) malloc(sizeof(double) * cap);
    if (strcmp(s, "_")) {
        const char *p = s;
        while (*p) {
            char *e;
            unsigned long long u = strtoull(p, &e, 16);
            if (n == cap) { cap *= 2; v = (double *) realloc(v, sizeof(double) * cap); }
            v[n++] = u2d(u);
            p = e;
            if (*p == ',') ++p;
        }
    }
    *out = (double *) hc_keep(v);
    return n;
}

/* find "key=" in a space separated spec line; returns pointer to a static copy of the value or NULL */
static inline const char *getkey(const char *line, const char *key, char *buf, size_t bufsz)
{
    size_t kl = strlen(key);
    const char *p = line;
    while (p && *p) {
        while (*p == ' ') ++p;
        if (!strncmp(p, key, kl) && p[kl] == '=') {
            const char *v = p + kl + 1;
            size_t i = 0;
            while (v[i] && v[i] != ' ' && v[i] != '\n' && i + 1 < bufsz) { buf[i] = v[i]; ++i; }
            buf[i] = 0;
            return buf;
        }
        p = strchr(p, ' ');
    }
    return NULL;
}

static inline long getint(const char *line, const char *key, long def)
{
    char b[64];
    const char *v = getkey(line, key, b, sizeof b);
    return v ? strtol(v, NULL, 10) : def;
}

static inline double gethex(const char *line, const char *key, double def)
{
    char b[64];
    const char *v = getkey(line, key, b, sizeof b);
    return v ? parsehex(v) : def;
}

/* splitmix64: every random choice of a harness derives from one state */
static inline uint64_t sm64(uint64_t *s)
{
    uint64_t z = (*s += 0x9e3779b97f4a7c15ULL);
    z = (z ^ (z >> 30)) * 0xbf58476d1ce4e5b9ULL;
    z = (z ^ (z >> 27)) * 0x94d049bb133111ebULL;
    return z ^ (z >> 31);
}

#endif
