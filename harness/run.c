/* h_run: general instrumented runner.
   stdin: one run spec per line (key=value tokens); each run is executed in a forked child
   (fresh process state, crash / timeout become observations) and prints a record:

     RUN <spec>
     G pre  <getter snapshot>
     E ...  hook events (inner view)          U ...  user callback invocations (outer view)
     R ret=<code> optf=<hex> x=<hexlist> calls=<n> objcalls=<n> numevals=<n> fstop=<n>
     G post <getter snapshot>
     END            (or  CRASH sig=<n> / TIMEOUT)
*/
#define HC_KEEP 1
#include "hcommon.h"
#include <unistd.h>
#include <signal.h>
#include <sys/wait.h>
#include "nlopt.h"
#include "nlopt-internal.h"
#include "nlopt-verif.h"
#include <stddef.h>

#define MAXC 16

typedef struct {
    int role;                   /* 0 objective, 1 ineq, 2 eq */
    int vec;                    /* vector-valued? */
    int m;                      /* components */
    int ck;                     /* constraint kind */
    int j0;                     /* first component index (scalar constraints: their j) */
    double b;                   /* offset */
    int index;                  /* position among constraints of its role */
    unsigned magic;
} fdata_t;

static FILE *out;
static int depth = 0;
static long ncalls = 0, nobj = 0;
static long stopat = -1;
static int stopval_i = 1;
static int use_set_force = 0;
static nlopt_opt top = NULL;
static double vclock = 0, clockq = 0;
static int objkind = 0;
static double *oc = NULL;
static int oc_n = 0;
static unsigned expect_n = 0;
static long inj_k[64];
static double inj_v[64];
static int ninj = 0;
static long injc_k[64];
static double injc_v[64];
static int ninjc = 0;
static long nccalls = 0;
static int quiet_x = 0;
static int negobj = 0;
/* reduced-problem mode (C11): the callbacks receive the free coordinates only and embed them in the full point */
static unsigned full_n = 0;
static double fixval[64];
static int isfixed[64];
static double fullx[64], fullg[64];

static const double *embed(unsigned n, const double *x)
{
    unsigned i, j = 0;
    if (!full_n) return x;
    for (i = 0; i < full_n; ++i) fullx[i] = isfixed[i] ? fixval[i] : (j < n ? x[j++] : 0.0);
    return fullx;
}

static void gather(unsigned n, const double *gfull, double *g)
{
    unsigned i, j = 0;
    for (i = 0; i < full_n; ++i) if (!isfixed[i] && j < n) g[j++] = gfull[i];
}

static double hook_seconds(void) { return vclock; }
static unsigned long hook_time_seed(void) { return 12345UL; }

static void precond(unsigned n_, const double *x_, const double *v, double *vpre, void *data);
static void dump_constraints(FILE * f, unsigned m, const nlopt_constraint * c)
{
    unsigned i;
    fprintf(f, "[");
    for (i = 0; i < m; ++i) {
        fprintf(f, "%s%u:%c:", i ? ";" : "", c[i].m, c[i].f ? 's' : (c[i].mf ? 'v' : '?'));
        phexlist(f, c[i].tol, (int) c[i].m);
    }
    fprintf(f, "]");
}

static void dump_opt(FILE * f, const nlopt_opt o)
{
    unsigned i;
    /* haspre: 0 none, 1 the harness's preconditioner, 2 some other function (a wrapper left behind) */
    fprintf(f, "alg=%d n=%u max=%d hasf=%d haspre=%d", (int) o->algorithm, o->n, o->maximize, o->f != NULL,
            o->pre == NULL ? 0 : (o->pre == precond ? 1 : 2));
    fprintf(f, " lb="); phexlist(f, o->lb, (int) o->n);
    fprintf(f, " ub="); phexlist(f, o->ub, (int) o->n);
    fprintf(f, " stopval="); phex(f, o->stopval);
    fprintf(f, " ftol_rel="); phex(f, o->ftol_rel);
    fprintf(f, " ftol_abs="); phex(f, o->ftol_abs);
    fprintf(f, " xtol_rel="); phex(f, o->xtol_rel);
    fprintf(f, " xtol_abs="); phexlist(f, o->xtol_abs, (int) o->n);
    fprintf(f, " xw="); phexlist(f, o->x_weights, (int) o->n);
    fprintf(f, " dx="); phexlist(f, o->dx, (int) o->n);
    fprintf(f, " maxeval=%d maxtime=", o->maxeval); phex(f, o->maxtime);
    fprintf(f, " numevals=%d fstop=%d pop=%u vs=%u m=%u p=%u", o->numevals, o->force_stop, o->stochastic_population, o->vector_storage, o->m, o->p);
    fprintf(f, " fc="); dump_constraints(f, o->m, o->fc);
    fprintf(f, " h="); dump_constraints(f, o->p, o->h);
    fprintf(f, " params=[");
    for (i = 0; i < o->nparams; ++i) { fprintf(f, "%s%s:", i ? ";" : "", o->params[i].name); phex(f, o->params[i].val); }
    fprintf(f, "] local=");
    if (o->local_opt) {
        const nlopt_opt l = o->local_opt;
        fprintf(f, "{alg=%d n=%u maxeval=%d ftol_rel=", (int) l->algorithm, l->n, l->maxeval); phex(f, l->ftol_rel);
        fprintf(f, " xtol_rel="); phex(f, l->xtol_rel);
        fprintf(f, " lb="); phexlist(f, l->lb, (int) l->n);
        fprintf(f, " ub="); phexlist(f, l->ub, (int) l->n);
        fprintf(f, " dx="); phexlist(f, l->dx, (int) l->n);
        fprintf(f, "}");
    } else fprintf(f, "-");
    fprintf(f, " child=%d work=%d", o->force_stop_child != NULL, o->work != NULL);
}

static long npre = 0;          /* preconditioner calls of the current run */
static int nest_marks = 0;     /* the top-level algorithm is an AUGLAG / MLSL variant: mark its subsidiary runs */
static void hook_event(int id, const void *obj, const double *x, double v, int r)
{
    switch (id) {
    case 1: {                   /* nlopt_optimize entry */
        const nlopt_opt o = (const nlopt_opt) obj;
        if (depth == 0) {
            fprintf(out, "E 1 d=%d x=", depth); phexlist(out, x, x ? (int) o->n : 0);
            fprintf(out, " "); dump_opt(out, o); fprintf(out, "\n");
        } else if (depth == 1 && nest_marks) {  /* compact marker for every subsidiary run of AUGLAG / MLSL: limits handed, start */
            fprintf(out, "N 10 d=%d alg=%d maxeval=%d x=", depth + 1, (int) o->algorithm, o->maxeval);
            phexlist(out, x, x ? (int) o->n : 0); fprintf(out, "\n");
        }
        ++depth;
        break;
    }
    case 2: {
        const nlopt_opt o = (const nlopt_opt) obj;
        --depth;
        if (depth == 0) {
            fprintf(out, "E 2 d=%d ret=%d optf=", depth, r); phex(out, v);
            fprintf(out, " x="); phexlist(out, x, x ? (int) o->n : 0);
            fprintf(out, " numevals=%d\n", o->numevals);
        } else if (depth == 1 && nest_marks) {
            fprintf(out, "N 11 d=%d ret=%d minf=", depth + 1, r); phex(out, v);
            fprintf(out, " x="); phexlist(out, x, x ? (int) o->n : 0);
            fprintf(out, " numevals=%d fstop=%d\n", o->numevals, o->force_stop);
        }
        break;
    }
    case 10: {                  /* nlopt_optimize_ entry: the problem handed to the algorithm */
        const nlopt_opt o = (const nlopt_opt) obj;
        static int nested_dumps = 0;
        if (depth >= 2 && ++nested_dumps > 12) break;   /* sub-optimizer problems: the first few only */
        fprintf(out, "E 10 d=%d x=", depth); phexlist(out, x, (int) o->n);
        fprintf(out, " "); dump_opt(out, o); fprintf(out, "\n");
        break;
    }
    case 11: {                  /* nlopt_optimize_ returned */
        const nlopt_opt o = (const nlopt_opt) obj;
        if (depth >= 2) break;
        fprintf(out, "E 11 d=%d ret=%d minf=", depth, r); phex(out, v);
        fprintf(out, " x="); phexlist(out, x, (int) o->n);
        fprintf(out, " numevals=%d fstop=%d\n", o->numevals, o->force_stop);
        break;
    }
    case 20: case 22: case 30: case 40:        /* wrapper entry: x, r = 2n + (grad != NULL) */
        if (depth >= 2 && id != 40) break;
        fprintf(out, "E %d d=%d g=%d x=", id, depth, r & 1); phexlist(out, x, r >> 1); fprintf(out, "\n");
        break;
    case 21: case 41:          /* wrapper exit: value, gradient as returned to the caller */
        if (depth >= 2 && id != 41) break;
        fprintf(out, "E %d d=%d val=", id, depth); phex(out, v);
        fprintf(out, " grad="); phexlist(out, x, r); fprintf(out, "\n");
        break;
    case 42:                   /* pre_max exit: the preconditioner result as the algorithm receives it */
        if (npre <= 40) { fprintf(out, "Q vpre="); phexlist(out, x, r); fprintf(out, "\n"); }
        break;
    case 31:                   /* memoize exit: incumbent */
        if (depth >= 2) break;
        fprintf(out, "E 31 d=%d minf=", depth); phex(out, v);
        fprintf(out, " bestx="); if (v < 1.7976931348623157e308) phexlist(out, x, r); else fprintf(out, "?");
        fprintf(out, "\n");
        break;
    default:
        if (depth <= 1) { fprintf(out, "E %d d=%d r=%d v=", id, depth, r); phex(out, v); fprintf(out, "\n"); }
    }
}

static void hook_site(int id, int n, const double *x)
{
    fprintf(out, "S %d d=%d x=", id, depth); phexlist(out, x, n); fprintf(out, "\n");
}

static void hook_flat(int id, int m, const double *v)
{
    fprintf(out, "F %d d=%d v=", id, depth); phexlist(out, v, m); fprintf(out, "\n");
}

/* ------------------------------------------------------------------------------- */
static double cval(int ck, double b, int j, unsigned n, const double *x, double *g)
{
    unsigned i;
    double v = 0;
    switch (ck) {
    case 0:
        for (i = 0; i < n; ++i) {
            double a = (double) ((int) ((i + (unsigned) j) % 3) - 1) + 0.5;
            v += a * x[i];
            if (g) g[i] = a;
        }
        return v - b;
    case 1:
        for (i = 0; i < n; ++i) {
            double t = x[i] - 0.1 * j;
            v += t * t;
            if (g) g[i] = 2 * t;
        }
        return v - b;
    case 3:                     /* outside of a ball (non-convex feasible set): b - |x - 0.1 j|^2 <= 0 */
        for (i = 0; i < n; ++i) {
            double t = x[i] - 0.1 * j;
            v += t * t;
            if (g) g[i] = -2 * t;
        }
        return b - v;
    case 4: {                   /* wavy (neither convex nor concave): sin(5 x0 + 2 x1) + 0.4 x1^2 - b <= 0 */
        double x1 = n > 1 ? x[1] : 0.0, t = 5.0 * x[0] + 2.0 * x1 + 0.1 * j;
        if (g) { for (i = 0; i < n; ++i) g[i] = 0; g[0] = 5.0 * cos(t); if (n > 1) g[1] = 2.0 * cos(t) + 0.8 * x1; }
        return sin(t) + 0.4 * x1 * x1 - b;
    }
    default:
        if (g) for (i = 0; i < n; ++i) g[i] = 0;
        if (g) g[(unsigned) j % n] = 1;
        return x[(unsigned) j % n] - b;
    }
}

static void maybe_stop(void)
{
    if (stopat >= 0 && ncalls == stopat) {
        if (use_set_force) nlopt_set_force_stop(top, stopval_i);
        else nlopt_force_stop(top);
        fprintf(out, "X stop raised at call %ld\n", ncalls);
    }
}

static double objective(unsigned n_, const double *x_, double *grad_, void *data)
{
    fdata_t *d = (fdata_t *) data;
    unsigned i;
    double v = 0;
    int k;
    unsigned n = full_n ? full_n : n_;
    const double *x = embed(n_, x_);
    double *grad = (full_n && grad_) ? fullg : grad_;
    ++ncalls; ++nobj;
    vclock += clockq;
    if (!d || d->magic != 0xC0FFEEu || d->role != 0) fprintf(out, "A bad objective data pointer\n");
    if (n_ != expect_n) fprintf(out, "A objective n=%u expected %u\n", n_, expect_n);
    switch (objkind) {
    case 0:
        for (i = 0; i < n; ++i) { double t = x[i] - oc[i % oc_n], w = 1 + 0.5 * i; v += w * t * t; if (grad) grad[i] = 2 * w * t; }
        break;
    case 1:
        if (grad) for (i = 0; i < n; ++i) grad[i] = 0;
        for (i = 0; i < n; ++i) {
            double xi = x[i] - oc[i % oc_n];
            v += (1 - xi) * (1 - xi);
            if (grad) grad[i] += -2 * (1 - xi);
            if (i + 1 < n) {
                double xj = x[i + 1] - oc[(i + 1) % oc_n], t = xj - xi * xi;
                v += 100 * t * t;
                if (grad) { grad[i] += -400 * t * xi; grad[i + 1] += 200 * t; }
            }
        }
        break;
    case 2:
        for (i = 0; i < n; ++i) { double t = x[i] - oc[i % oc_n], w = 1 + i; v += w * fabs(t); if (grad) grad[i] = t > 0 ? w : (t < 0 ? -w : 0); }
        break;
    case 3:
        for (i = 0; i < n; ++i) { double t = x[i] - oc[i % oc_n]; v += t * t + 2 * sin(5 * t); if (grad) grad[i] = 2 * t + 10 * cos(5 * t); }
        break;
    case 4:
        for (i = 0; i < n; ++i) { double t = x[i] - oc[i % oc_n], fl = floor(4 * t); v += fl * fl + 0.1 * fabs(t); if (grad) grad[i] = t > 0 ? 0.1 : -0.1; }
        break;
    case 5:
        v = -(double) nobj;
        if (grad) for (i = 0; i < n; ++i) grad[i] = -1;
        break;
    default:
        for (i = 0; i < n; ++i) { double t = x[i] - oc[i % oc_n]; v += (i + 1) * t; if (grad) grad[i] = (double) (i + 1); }
    }
    for (k = 0; k < ninj; ++k) if (inj_k[k] == nobj) v = inj_v[k];
    if (negobj) { v = -v; if (grad) for (i = 0; i < n; ++i) grad[i] = -grad[i]; }
    if (full_n && grad_) gather(n_, grad, grad_);
    fprintf(out, "U f g=%d x=", grad_ != NULL);
    if (!quiet_x) phexlist(out, x_, (int) n_);
    fprintf(out, " val="); phex(out, v);
    if (grad_) { fprintf(out, " grad="); phexlist(out, grad_, (int) n_); }
    fprintf(out, "\n");
    maybe_stop();
    return v;
}

/* which registration the callback about to run belongs to: every (role, index) gets its own function (trampolines below), so a
   data pointer that belongs to another constraint is noticed even when both records have the same shape */
static int cb_role = 0, cb_index = -1;

static double sconstraint(unsigned n_, const double *x_, double *grad_, void *data)
{
    fdata_t *d = (fdata_t *) data;
    double v;
    int k;
    unsigned n = full_n ? full_n : n_;
    const double *x = embed(n_, x_);
    double *grad = (full_n && grad_) ? fullg : grad_;
    ++ncalls; ++nccalls;
    vclock += clockq;
    if (!d || d->magic != 0xC0FFEEu || d->vec || d->role == 0) fprintf(out, "A bad constraint data pointer\n");
    else if (cb_role && (d->role != cb_role || (cb_index >= 0 && d->index != cb_index)))
        fprintf(out, "A constraint function registered as role=%d i=%d received the data of role=%d i=%d\n", cb_role, cb_index, d->role, d->index);
    cb_role = 0; cb_index = -1;
    if (n_ != expect_n) fprintf(out, "A constraint n=%u expected %u\n", n_, expect_n);
    v = cval(d->ck, d->b, d->j0, n, x, grad);
    for (k = 0; k < ninjc; ++k) if (injc_k[k] == nccalls) v = injc_v[k];
    if (full_n && grad_) gather(n_, grad, grad_);
    fprintf(out, "U c role=%d i=%d g=%d x=", d->role, d->index, grad_ != NULL);
    if (!quiet_x) phexlist(out, x_, (int) n_);
    fprintf(out, " val="); phex(out, v);
    if (grad_) { fprintf(out, " grad="); phexlist(out, grad_, (int) n_); }
    fprintf(out, "\n");
    maybe_stop();
    return v;
}

static void mconstraint(unsigned m, double *result, unsigned n_, const double *x_, double *grad, void *data)
{
    fdata_t *d = (fdata_t *) data;
    unsigned j;
    int k;
    unsigned n = full_n ? full_n : n_;
    const double *x = embed(n_, x_);
    ++ncalls; ++nccalls;
    vclock += clockq;
    if (!d || d->magic != 0xC0FFEEu || !d->vec || d->role == 0) fprintf(out, "A bad mconstraint data pointer\n");
    else if (cb_role && (d->role != cb_role || (cb_index >= 0 && d->index != cb_index)))
        fprintf(out, "A mconstraint function registered as role=%d i=%d received the data of role=%d i=%d\n", cb_role, cb_index, d->role, d->index);
    cb_role = 0; cb_index = -1;
    if (n_ != expect_n) fprintf(out, "A mconstraint n=%u expected %u\n", n_, expect_n);
    if ((int) m != d->m) fprintf(out, "A mconstraint m=%u expected %d\n", m, d->m);
    for (j = 0; j < m; ++j)
        result[j] = cval(d->ck, d->b + 0.1 * j, d->j0 + (int) j, n, x, grad ? grad + j * n : NULL);
    for (k = 0; k < ninjc; ++k) if (injc_k[k] == nccalls) result[0] = injc_v[k];
    fprintf(out, "U m role=%d i=%d g=%d x=", d->role, d->index, grad != NULL);
    if (!quiet_x) phexlist(out, x_, (int) n_);
    fprintf(out, " val="); phexlist(out, result, (int) m);
    if (grad) { fprintf(out, " grad="); phexlist(out, grad, (int) (m * n)); }
    fprintf(out, "\n");
    maybe_stop();
}

/* preconditioner (approximate Hessian times v): a fixed positive diagonal, negated together with the objective */
static void precond(unsigned n_, const double *x_, const double *v, double *vpre, void *data)
{
    unsigned i;
    fdata_t *d = (fdata_t *) data;
    if (!d || d->magic != 0xC0FFEEu || d->role != 0) fprintf(out, "A bad preconditioner data pointer\n");
    if (n_ != expect_n) fprintf(out, "A preconditioner n=%u expected %u\n", n_, expect_n);
    for (i = 0; i < n_; ++i) { double h = 2 * (1 + 0.5 * i); vpre[i] = (negobj ? -h : h) * v[i]; }
    if (++npre <= 40) {       /* the dual solver calls this very often: log the first ones, count the rest */
        fprintf(out, "P x="); phexlist(out, x_, (int) n_);
        fprintf(out, " v="); phexlist(out, v, (int) n_);
        fprintf(out, " vpre="); phexlist(out, vpre, (int) n_);
        fprintf(out, "\n");
    }
}

/* preconditioner of a scalar constraint (item kind `p`): Hessian of cval times v (kinds 1 / 3: +-2 I; linear kinds: 0) */
static long npre_c = 0;
static void precond_c(unsigned n_, const double *x_, const double *v, double *vpre, void *data)
{
    fdata_t *d = (fdata_t *) data;
    unsigned i;
    (void) x_;
    if (!d || d->magic != 0xC0FFEEu || d->role == 0) fprintf(out, "A bad constraint-preconditioner data pointer\n");
    for (i = 0; i < n_; ++i) vpre[i] = (d && d->ck == 1 ? 2.0 : (d && d->ck == 3 ? -2.0 : 0.0)) * v[i];
    ++npre_c;
}

/* munge hooks (spec key munge=1): the copy hook returns a fresh clone of the data record, the destroy hook releases one
   reference; a ledger counts what was handed to the library and what came back, and what happened INSIDE nlopt_optimize */
#define MAXLEDGER 4096
static void *led_ptr[MAXLEDGER]; static int led_in[MAXLEDGER], led_out[MAXLEDGER], led_clone[MAXLEDGER]; static int led_n = 0;
static int in_optimize = 0, hooks_in_optimize = 0, led_unknown = 0;
static int led_find(void *p) { int i; for (i = 0; i < led_n; ++i) if (led_ptr[i] == p) return i; return -1; }
static void led_handin(void *p, int clone)
{
    int i;
    if (!p) return;
    i = led_find(p);
    if (i < 0 && led_n < MAXLEDGER) { i = led_n++; led_ptr[i] = p; led_in[i] = led_out[i] = 0; led_clone[i] = clone; }
    if (i >= 0) ++led_in[i];
}
static void *munge_destroy_hook(void *p)
{
    int i;
    if (in_optimize) ++hooks_in_optimize;
    if (!p) return NULL;        /* releasing "no data" (e.g. the previous, unset objective data) */
    i = led_find(p);
    if (i < 0) ++led_unknown; else ++led_out[i];
    return NULL;
}
static void *munge_copy_hook(void *p)
{
    fdata_t *c;
    if (in_optimize) ++hooks_in_optimize;
    if (!p) return NULL;
    c = (fdata_t *) hc_keep(malloc(sizeof(fdata_t)));
    memcpy(c, p, sizeof(fdata_t));
    led_handin(c, 1);
    return c;
}
static void led_report(void)
{
    int i, unreleased = 0, multi = 0;
    for (i = 0; i < led_n; ++i) { if (led_out[i] < led_in[i]) ++unreleased; if (led_out[i] > led_in[i]) ++multi; }
    fprintf(out, "H pointers=%d unreleased=%d released_too_often=%d unknown_released=%d hook_calls_inside_optimize=%d\n",
            led_n, unreleased, multi, led_unknown, hooks_in_optimize);
}

/* legacy (nlopt_func_old) adapters */
static double objective_old(int n, const double *x, double *grad, void *data) { return objective((unsigned) n, x, grad, data); }
#define NTRAMP 8
#define TR(r, k) \
    static double sc_##r##_##k(unsigned n, const double *x, double *g, void *d) { cb_role = r; cb_index = k; return sconstraint(n, x, g, d); } \
    static void mc_##r##_##k(unsigned m, double *res, unsigned n, const double *x, double *g, void *d) { cb_role = r; cb_index = k; mconstraint(m, res, n, x, g, d); }
TR(1, 0) TR(1, 1) TR(1, 2) TR(1, 3) TR(1, 4) TR(1, 5) TR(1, 6) TR(1, 7)
TR(2, 0) TR(2, 1) TR(2, 2) TR(2, 3) TR(2, 4) TR(2, 5) TR(2, 6) TR(2, 7)
#define TL(p, r) { p##_##r##_0, p##_##r##_1, p##_##r##_2, p##_##r##_3, p##_##r##_4, p##_##r##_5, p##_##r##_6, p##_##r##_7 }
static nlopt_func sc_tab[2][NTRAMP] = { TL(sc, 1), TL(sc, 2) };
static nlopt_mfunc mc_tab[2][NTRAMP] = { TL(mc, 1), TL(mc, 2) };
static nlopt_func sc_for(int role, int idx) { return idx < NTRAMP ? sc_tab[role - 1][idx] : sconstraint; }
static nlopt_mfunc mc_for(int role, int idx) { return idx < NTRAMP ? mc_tab[role - 1][idx] : mconstraint; }
/* legacy interface: one function per role (the index is not known to the callback there) */
static double sconstraint_old_eq(int n, const double *x, double *grad, void *data) { cb_role = 2; cb_index = -1; return sconstraint((unsigned) n, x, grad, data); }
static double sconstraint_old(int n, const double *x, double *grad, void *data) { cb_role = 1; cb_index = -1; return sconstraint((unsigned) n, x, grad, data); }

/* ------------------------------------------------------------------------------- */
static void getters(const char *phase, nlopt_opt o)
{
    fprintf(out, "G %s ", phase);
    dump_opt(out, o);
    fprintf(out, "\n");
}

static int parse_inj(const char *s, long *ks, double *vs)
{
    int n = 0;
    const char *p = s;
    while (*p && n < 64) {
        char *e;
        ks[n] = strtol(p, &e, 10);
        if (*e != ':') break;
        vs[n] = u2d(strtoull(e + 1, &e, 16));
        ++n;
        p = e;
        if (*p == ',') ++p;
    }
    return n;
}

static fdata_t fdatas[3 * MAXC + 2];

static int use_munge = 0;
static int add_constraints(nlopt_opt o, const char *spec, int role, int *nfd)
{
    /* spec: items separated by ';' :  s:<ck>:<tolhex>:<bhex>:<j>   or  v:<m>:<ck>:<tollist|->:<bhex>:<j0> */
    char buf[4096];
    char *item, *save = NULL;
    int idx = 0, bad = 0;
    strncpy(buf, spec, sizeof buf - 1); buf[sizeof buf - 1] = 0;
    for (item = strtok_r(buf, ";", &save); item; item = strtok_r(NULL, ";", &save)) {
        fdata_t *d = &fdatas[(*nfd)++];
        if (use_munge) led_handin(d, 0);
        char *f[8]; int nf = 0; char *s2 = NULL, *t;
        nlopt_result r;
        for (t = strtok_r(item, ":", &s2); t && nf < 8; t = strtok_r(NULL, ":", &s2)) f[nf++] = t;
        d->magic = 0xC0FFEEu; d->role = role; d->index = idx++;
        if (f[0][0] == 'p' && nf >= 5 && role == 1) {     /* scalar inequality constraint with a preconditioner */
            d->vec = 0; d->m = 1; d->ck = atoi(f[1]); d->b = parsehex(f[3]); d->j0 = atoi(f[4]);
            r = nlopt_add_precond_inequality_constraint(o, sc_for(role, d->index), precond_c, d, parsehex(f[2]));
        } else if (f[0][0] == 's' && nf >= 5) {
            d->vec = 0; d->m = 1; d->ck = atoi(f[1]); d->b = parsehex(f[3]); d->j0 = atoi(f[4]);
            r = role == 1 ? nlopt_add_inequality_constraint(o, sc_for(role, d->index), d, parsehex(f[2]))
                : nlopt_add_equality_constraint(o, sc_for(role, d->index), d, parsehex(f[2]));
        } else if (f[0][0] == 'v' && nf >= 6) {
            double *tol = NULL;
            d->vec = 1; d->m = atoi(f[1]); d->ck = atoi(f[2]); d->b = parsehex(f[4]); d->j0 = atoi(f[5]);
            parselist(f[3], &tol);
            r = role == 1 ? nlopt_add_inequality_mconstraint(o, (unsigned) d->m, mc_for(role, d->index), d, tol)
                : nlopt_add_equality_mconstraint(o, (unsigned) d->m, mc_for(role, d->index), d, tol);
            free(tol);
        } else { fprintf(out, "A bad constraint spec\n"); return -1; }
        fprintf(out, "C role=%d i=%d ret=%d\n", role, d->index, (int) r);
        if (r < 0) bad = 1;
    }
    return bad;
}

static void one_run(const char *line)
{
    char b[8192];
    const char *v;
    int alg = (int) getint(line, "alg", 0);
    int nest_marks_ = (alg == NLOPT_AUGLAG || alg == NLOPT_AUGLAG_EQ || alg == NLOPT_LN_AUGLAG || alg == NLOPT_LD_AUGLAG
                       || alg == NLOPT_LN_AUGLAG_EQ || alg == NLOPT_LD_AUGLAG_EQ || alg == NLOPT_G_MLSL || alg == NLOPT_G_MLSL_LDS
                       || alg == NLOPT_GN_MLSL || alg == NLOPT_GD_MLSL || alg == NLOPT_GN_MLSL_LDS || alg == NLOPT_GD_MLSL_LDS);
    unsigned n = (unsigned) getint(line, "n", 1);
    double *lb = NULL, *ub = NULL, *x0 = NULL, *x = NULL, *tmp = NULL;
    int runs = (int) getint(line, "runs", 1), r, nfd = 1, cbad = 0;
    int nest_marks_dummy = (nest_marks = nest_marks_);
    nlopt_opt o, target;
    nlopt_result ret;
    double optf;

    out = stdout;
    fprintf(out, "RUN %s", line);
    if (line[strlen(line) - 1] != '\n') fprintf(out, "\n");
    fflush(out);                /* so that a later crash is attributed to this run */
    nlopt_verif_hooks.seconds = hook_seconds;
    nlopt_verif_hooks.time_seed = hook_time_seed;
    if (getint(line, "hooks", 1)) {
        nlopt_verif_hooks.event = hook_event;
        nlopt_verif_hooks.site = hook_site;
        nlopt_verif_hooks.flat = hook_flat;
    }
    if (getint(line, "seed", -1) >= 0) nlopt_srand((unsigned long) getint(line, "seed", 0));
    expect_n = n;
    objkind = (int) getint(line, "obj", 0);
    quiet_x = (int) getint(line, "quietx", 0);
    negobj = (int) getint(line, "negobj", 0);
    full_n = (unsigned) getint(line, "full_n", 0);
    if (full_n && (v = getkey(line, "fix", b, sizeof b))) {
        /* fix=i:hex,i:hex */
        const char *q = v;
        memset(isfixed, 0, sizeof isfixed);
        while (*q) {
            char *e;
            long i = strtol(q, &e, 10);
            if (*e != ':') break;
            if (i >= 0 && i < 64) { isfixed[i] = 1; fixval[i] = u2d(strtoull(e + 1, &e, 16)); }
            q = e; if (*q == ',') ++q;
        }
    }
    clockq = gethex(line, "clockq", 0.0);
    stopat = getint(line, "stopat", -1);
    use_set_force = (int) getint(line, "setforce", 0);
    stopval_i = (int) getint(line, "forceval", 1);
    if ((v = getkey(line, "oc", b, sizeof b))) oc_n = parselist(v, &oc);
    if (!oc || oc_n <= 0) { oc = (double *) hc_keep(calloc(1, sizeof(double))); oc_n = 1; }
    if ((v = getkey(line, "inj", b, sizeof b))) ninj = parse_inj(v, inj_k, inj_v);
    if ((v = getkey(line, "injc", b, sizeof b))) ninjc = parse_inj(v, injc_k, injc_v);

    if ((v = getkey(line, "gpop", b, sizeof b))) nlopt_set_stochastic_population(atoi(v));
    if ((v = getkey(line, "glocal", b, sizeof b))) {
        int gd = 0, gn = 0, gm = 0;
        sscanf(v, "%d:%d:%d", &gd, &gn, &gm);
        nlopt_set_local_search_algorithm((nlopt_algorithm) gd, (nlopt_algorithm) gn, gm);
    }
    if (getint(line, "legacy", 0)) {
        /* the one-call interface: scalar constraints only, data passed with a stride */
        fdata_t *cd = &fdatas[1];
        int mi = 0, pe = 0;
        double htol = 0, *xa = NULL;
        double *lbv = NULL, *ubv = NULL;
        char *save = NULL, *it;
        fdatas[0].magic = 0xC0FFEEu; fdatas[0].role = 0; fdatas[0].vec = 0;
        if ((v = getkey(line, "ineq", b, sizeof b))) {
            for (it = strtok_r(b, ";", &save); it; it = strtok_r(NULL, ";", &save)) {
                int ck = 0, j0 = 0; unsigned long long tb = 0, bb = 0;
                sscanf(it, "s:%d:%llx:%llx:%d", &ck, &tb, &bb, &j0);
                cd[mi].magic = 0xC0FFEEu; cd[mi].role = 1; cd[mi].vec = 0; cd[mi].m = 1; cd[mi].ck = ck; cd[mi].b = u2d(bb); cd[mi].j0 = j0; cd[mi].index = mi;
                ++mi;
            }
        }
        if ((v = getkey(line, "eq", b, sizeof b))) {
            for (it = strtok_r(b, ";", &save); it; it = strtok_r(NULL, ";", &save)) {
                int ck = 0, j0 = 0; unsigned long long tb = 0, bb = 0;
                fdata_t *e = &fdatas[1 + MAXC + 2 * pe];     /* equality data with a stride different from the inequality data */
                sscanf(it, "s:%d:%llx:%llx:%d", &ck, &tb, &bb, &j0);
                e->magic = 0xC0FFEEu; e->role = 2; e->vec = 0; e->m = 1; e->ck = ck; e->b = u2d(bb); e->j0 = j0; e->index = pe;
                htol = u2d(tb);
                ++pe;
            }
        }
        if ((v = getkey(line, "lb", b, sizeof b))) parselist(v, &lbv);
        if ((v = getkey(line, "ub", b, sizeof b))) parselist(v, &ubv);
        if ((v = getkey(line, "x0", b, sizeof b))) parselist(v, &x0);
        if ((v = getkey(line, "xtol_abs", b, sizeof b))) parselist(v, &xa);
        x = (double *) hc_keep(malloc(sizeof(double) * (n + 1)));
        { unsigned i; for (i = 0; i < n; ++i) x[i] = x0 ? x0[i] : 0.0; x[n] = 777.0; }
        optf = -12345.678;
        vclock = gethex(line, "clock0", 0.0);
        ret = nlopt_minimize_econstrained((nlopt_algorithm) alg, (int) n, objective_old, &fdatas[0],
                                          mi, sconstraint_old, cd, (ptrdiff_t) sizeof(fdata_t),
                                          pe, sconstraint_old_eq, &fdatas[1 + MAXC], (ptrdiff_t) (2 * sizeof(fdata_t)),
                                          lbv, ubv, x, &optf,
                                          gethex(line, "stopval", -HUGE_VAL), gethex(line, "ftol_rel", 0.0), gethex(line, "ftol_abs", 0.0),
                                          gethex(line, "xtol_rel", 0.0), xa, 0.0, htol,
                                          (int) getint(line, "maxeval", 0), gethex(line, "maxtime", 0.0));
        fprintf(out, "R ret=%d optf=", (int) ret); phex(out, optf);
        fprintf(out, " x="); phexlist(out, x, (int) n);
        fprintf(out, " calls=%ld objcalls=%ld numevals=%d fstop=%d guard=%d errmsg=%d\n", ncalls, nobj, -1, 0, x[n] == 777.0, 0);
        fprintf(out, "END\n");
        return;
    }
    o = nlopt_create((nlopt_algorithm) alg, n);
    if (!o) { fprintf(out, "R create-failed\nEND\n"); return; }
    top = o;
    fdatas[0].magic = 0xC0FFEEu; fdatas[0].role = 0; fdatas[0].vec = 0;
    use_munge = (int) getint(line, "munge", 0);
    led_n = 0; hooks_in_optimize = 0; led_unknown = 0; in_optimize = 0;
    if (use_munge) nlopt_set_munge(o, munge_destroy_hook, munge_copy_hook);
    if (use_munge && !getint(line, "noobj", 0)) led_handin(&fdatas[0], 0);
    if (!getint(line, "noobj", 0)) {
        if (getint(line, "pre", 0)) {
            if (getint(line, "max", 0)) nlopt_set_precond_max_objective(o, objective, precond, &fdatas[0]);
            else nlopt_set_precond_min_objective(o, objective, precond, &fdatas[0]);
        }
        else if (getint(line, "max", 0)) nlopt_set_max_objective(o, objective, &fdatas[0]);
        else nlopt_set_min_objective(o, objective, &fdatas[0]);
    }
    if ((v = getkey(line, "lb", b, sizeof b)) && parselist(v, &lb) >= 0) fprintf(out, "C lb ret=%d\n", (int) nlopt_set_lower_bounds(o, lb));
    if ((v = getkey(line, "ub", b, sizeof b)) && parselist(v, &ub) >= 0) fprintf(out, "C ub ret=%d\n", (int) nlopt_set_upper_bounds(o, ub));
    if ((v = getkey(line, "stopval", b, sizeof b))) nlopt_set_stopval(o, parsehex(v));
    if ((v = getkey(line, "ftol_rel", b, sizeof b))) nlopt_set_ftol_rel(o, parsehex(v));
    if ((v = getkey(line, "ftol_abs", b, sizeof b))) nlopt_set_ftol_abs(o, parsehex(v));
    if ((v = getkey(line, "xtol_rel", b, sizeof b))) nlopt_set_xtol_rel(o, parsehex(v));
    if ((v = getkey(line, "xtol_abs", b, sizeof b)) && parselist(v, &tmp) >= 0) { nlopt_set_xtol_abs(o, tmp); free(tmp); tmp = NULL; }
    if ((v = getkey(line, "xw", b, sizeof b)) && parselist(v, &tmp) >= 0) { nlopt_set_x_weights(o, tmp); free(tmp); tmp = NULL; }
    if ((v = getkey(line, "dx", b, sizeof b)) && parselist(v, &tmp) >= 0) { fprintf(out, "C dx ret=%d\n", (int) nlopt_set_initial_step(o, tmp)); free(tmp); tmp = NULL; }
    if ((v = getkey(line, "maxeval", b, sizeof b))) nlopt_set_maxeval(o, atoi(v));
    if ((v = getkey(line, "maxtime", b, sizeof b))) nlopt_set_maxtime(o, parsehex(v));
    if ((v = getkey(line, "pop", b, sizeof b))) nlopt_set_population(o, (unsigned) atoi(v));
    if ((v = getkey(line, "vs", b, sizeof b))) nlopt_set_vector_storage(o, (unsigned) atoi(v));
    if ((v = getkey(line, "params", b, sizeof b))) {
        char *save = NULL, *it;
        for (it = strtok_r(b, ",", &save); it; it = strtok_r(NULL, ",", &save)) {
            char *c = strchr(it, ':');
            if (c) { *c = 0; nlopt_set_param(o, it, parsehex(c + 1)); }
        }
    }
    if ((v = getkey(line, "ineq", b, sizeof b))) cbad |= add_constraints(o, v, 1, &nfd);
    if ((v = getkey(line, "eq", b, sizeof b))) cbad |= add_constraints(o, v, 2, &nfd);
    if ((v = getkey(line, "local", b, sizeof b))) {
        int la = 0, lme = 0; unsigned long long fr = 0, xr = 0;
        nlopt_opt l;
        sscanf(v, "%d:%d:%llx:%llx", &la, &lme, &fr, &xr);
        l = nlopt_create((nlopt_algorithm) la, n);
        if (l) {
            nlopt_set_maxeval(l, lme);
            nlopt_set_ftol_rel(l, u2d(fr));
            nlopt_set_xtol_rel(l, u2d(xr));
            fprintf(out, "C local ret=%d\n", (int) nlopt_set_local_optimizer(o, l));
            nlopt_destroy(l);
        }
    }
    if ((v = getkey(line, "x0", b, sizeof b))) parselist(v, &x0);
    x = (double *) hc_keep(malloc(sizeof(double) * (n + 1)));
    target = o;
    if (getint(line, "copy", 0)) { target = nlopt_copy(o); top = target; }
    if (cbad && !getint(line, "runanyway", 0)) { fprintf(out, "R constraint-rejected\nEND\n"); return; }

    for (r = 0; r < runs; ++r) {
        unsigned i;
        if (!(r > 0 && getint(line, "fixall2", 0)))
            for (i = 0; i < n; ++i) x[i] = x0 ? x0[i] : 0.0;
        x[n] = 777.0;
        optf = -12345.678;
        ncalls = nobj = nccalls = 0;
        npre = 0;
        vclock = gethex(line, "clock0", 0.0);   /* the virtual clock need not start at 0 (a later run in a long-lived thread) */
        depth = 0;
        if (getint(line, "reseed", 0) && getint(line, "seed", -1) >= 0) nlopt_srand((unsigned long) getint(line, "seed", 0));
        getters("pre", target);
        if (getint(line, "nullopt", 0)) ret = nlopt_optimize(NULL, x, &optf);
        else if (getint(line, "nullx", 0)) ret = nlopt_optimize(target, NULL, &optf);
        else if (getint(line, "nullf", 0)) ret = nlopt_optimize(target, x, NULL);
        else {
#ifdef RUN_OOM
            if (r == 0) { oom_fail_at = getint(line, "failalloc", -1); oom_count = 0; oom_fired = 0; oom_armed = 1; }
#endif
            in_optimize = 1;
            ret = nlopt_optimize(target, x, &optf);
            in_optimize = 0;
#ifdef RUN_OOM
            oom_armed = 0;
            if (r == 0) fprintf(out, "O allocations=%ld fired=%ld\n", oom_count, oom_fired);
#endif
        }
        fprintf(out, "R ret=%d optf=", (int) ret); phex(out, optf);
        fprintf(out, " x="); phexlist(out, x, (int) n);
        fprintf(out, " calls=%ld objcalls=%ld numevals=%d fstop=%d guard=%d errmsg=%d\n", ncalls, nobj, nlopt_get_numevals(target),
                nlopt_get_force_stop(target), x[n] == 777.0, nlopt_get_errmsg(target) != NULL);
        getters("post", target);
        if (stopat >= 0 && r == 0) stopat = -1;   /* history: stopped run followed by a normal run */
        if (r == 0 && getint(line, "fixall2", 0)) {   /* history: ordinary run, then every coordinate fixed at the result, run again */
            nlopt_set_lower_bounds(target, x);
            nlopt_set_upper_bounds(target, x);
        }
    }
    if (target != o) nlopt_destroy(target);
    nlopt_destroy(o);
    if (use_munge) led_report();
    fprintf(out, "END\n");
}

#if defined(__SANITIZE_ADDRESS__)
#include <sanitizer/lsan_interface.h>
#endif

int main(int argc, char **argv)
{
    char *line = NULL;
    size_t cap = 0;
    int nofork = argc > 1 && !strcmp(argv[1], "--nofork");
    int tmo = 20;
    if (getenv("HRUN_TIMEOUT")) tmo = atoi(getenv("HRUN_TIMEOUT"));
    setvbuf(stdout, NULL, _IOFBF, 1 << 16);
    while (getline(&line, &cap, stdin) > 0) {
        if (line[0] == '\n' || line[0] == '#') continue;
        if (nofork) {
            one_run(line); fflush(stdout);
#if defined(__SANITIZE_ADDRESS__)
            if (__lsan_do_recoverable_leak_check()) return 25;
#endif
            continue;
        }
        fflush(stdout);
        {
            pid_t pid = fork();
            if (pid == 0) {
                alarm((unsigned) tmo);
                one_run(line);
                fflush(stdout);
#if defined(__SANITIZE_ADDRESS__)
                if (__lsan_do_recoverable_leak_check()) { fflush(stderr); _exit(25); }   /* leak report is on stderr */
#endif
                _exit(0);
            } else {
                int st = 0;
                waitpid(pid, &st, 0);
                if (WIFSIGNALED(st)) {
                    if (WTERMSIG(st) == SIGALRM) printf("TIMEOUT\n");
                    else printf("CRASH sig=%d\n", WTERMSIG(st));
                } else if (WEXITSTATUS(st) != 0)
                    printf("CRASH exit=%d\n", WEXITSTATUS(st));
            }
        }
    }
    free(line);
    return 0;
}
