/* replay of the Lean witness Nlopt.C06Isres.isres_best_feasible_full_false on the real library:
   an infeasible point whose squared violation underflows to 0 (g = 1e-170 > tol = 0) is kept as the incumbent although
   feasible points are evaluated afterwards.  exit 1 = the returned point is infeasible. */
#include <nlopt.h>
#include <stdio.h>
static double f(unsigned n, const double *x, double *g, void *d) { (void) n; (void) g; (void) d; return x[0] == 0.25 ? 1.0 : 2.0; }
static double c(unsigned n, const double *x, double *g, void *d) { (void) n; (void) g; (void) d; return x[0] == 0.25 ? 1e-170 : -1.0; }
int main(void)
{
    nlopt_opt o = nlopt_create(NLOPT_GN_ISRES, 1);
    double lb = 0, ub = 1, x = 0.25, mf = 0;
    int r;
    nlopt_set_lower_bounds(o, &lb); nlopt_set_upper_bounds(o, &ub);
    nlopt_set_min_objective(o, f, 0);
    nlopt_add_inequality_constraint(o, c, 0, 0.0);
    nlopt_set_maxeval(o, 200);
    nlopt_srand(1);
    r = nlopt_optimize(o, &x, &mf);
    printf("ret=%d x=%.17g minf=%.17g c(x)=%g\n", r, x, mf, c(1, &x, 0, 0));
    nlopt_destroy(o);
    return !(c(1, &x, 0, 0) <= 0);
}
