/* h_api: S-api correspondence harness.  Executes API histories on the real library and prints,
   after every operation, the return code, the allocator / munge-hook event list and a
   canonical snapshot of every live object.  Linked with
   -Wl,--wrap=malloc,--wrap=calloc,--wrap=realloc,--wrap=free so that every allocation made by
   libnlopt during an operation is observed and can be made to fail (allocation oracle).

   stdin: histories; one op per line; a line "history <id>" starts a new history (fresh forked
   child, so a crash is an observation: the parent prints "CRASH sig=<n>"). */
#include "hcommon.h"
#include <unistd.h>
#include <signal.h>
#include <sys/wait.h>
#include "nlopt.h"
#include "nlopt-internal.h"

/* ---------------------------------------------------------------- allocator interposition */
extern void *__real_malloc(size_t);
extern void *__real_calloc(size_t, size_t);
extern void *__real_realloc(void *, size_t);
extern void __real_free(void *);

#define MAXBLK 4096
typedef struct { void *p; size_t sz; int live; } blk_t;
static blk_t blks[MAXBLK];
static int nblk = 0;
static volatile int tracking = 0;
static long alloc_count = 0, fail_at = -1;
#define MAXEV 512
typedef struct { int kind; int a, b; size_t sz; } ev_t;    /* 0 alloc,1 allocfail,2 realloc,3 reallocfail,4 free,5 mungeD,6 mungeC,7 badfree */
static ev_t evs[MAXEV];
static int nev = 0;

static void addev(int kind, int a, int b, size_t sz)
{
    if (nev < MAXEV) { evs[nev].kind = kind; evs[nev].a = a; evs[nev].b = b; evs[nev].sz = sz; ++nev; }
}

static int findblk(void *p)
{
    int i;
    for (i = nblk - 1; i >= 0; --i)
        if (blks[i].live && blks[i].p == p) return i;
    return -1;
}

static int should_fail(void)
{
    ++alloc_count;
    return fail_at > 0 && alloc_count == fail_at;
}

void *__wrap_malloc(size_t sz)
{
    void *p;
    if (!tracking) return __real_malloc(sz);
    if (should_fail()) { addev(1, 0, 0, sz); return NULL; }
    p = __real_malloc(sz ? sz : 1);
    if (nblk < MAXBLK) { blks[nblk].p = p; blks[nblk].sz = sz; blks[nblk].live = 1; addev(0, nblk, 0, sz); ++nblk; }
    return p;
}

void *__wrap_calloc(size_t n, size_t s)
{
    void *p;
    if (!tracking) return __real_calloc(n, s);
    if (should_fail()) { addev(1, 0, 0, n * s); return NULL; }
    p = __real_calloc(n ? n : 1, s ? s : 1);
    if (nblk < MAXBLK) { blks[nblk].p = p; blks[nblk].sz = n * s; blks[nblk].live = 1; addev(0, nblk, 0, n * s); ++nblk; }
    return p;
}

void *__wrap_realloc(void *old, size_t sz)
{
    void *p;
    int oi;
    if (!tracking) return __real_realloc(old, sz);
    if (!old) return __wrap_malloc(sz);
    oi = findblk(old);
    if (should_fail()) { addev(3, oi, 0, sz); return NULL; }
    p = __real_realloc(old, sz ? sz : 1);
    if (oi >= 0) blks[oi].live = 0;
    if (nblk < MAXBLK) { blks[nblk].p = p; blks[nblk].sz = sz; blks[nblk].live = 1; addev(2, oi, nblk, sz); ++nblk; }
    return p;
}

void __wrap_free(void *p)
{
    int i;
    if (!tracking) { __real_free(p); return; }
    if (!p) return;
    i = findblk(p);
    if (i < 0) { addev(7, -1, 0, 0); return; }   /* free of something we do not know as live: do not pass on */
    blks[i].live = 0;
    addev(4, i, 0, 0);
    __real_free(p);
}

/* ---------------------------------------------------------------- user functions & data */
static char dataspace[8192];
static int nextdata = 1000;
static int munge_copy_fail_at = -1, munge_copy_count = 0;
#define DID(p) ((p) ? (int) ((char *) (p) - dataspace) : 0)
#define DPTR(id) ((id) ? (void *) (dataspace + (id)) : NULL)

static double f1(unsigned n, const double *x, double *g, void *d) { (void) n; (void) x; (void) g; (void) d; return 1; }
static double f2(unsigned n, const double *x, double *g, void *d) { (void) n; (void) x; (void) g; (void) d; return 2; }
static double f3(unsigned n, const double *x, double *g, void *d) { (void) n; (void) x; (void) g; (void) d; return 3; }
static double c1(unsigned n, const double *x, double *g, void *d) { (void) n; (void) x; (void) g; (void) d; return -1; }
static double c2(unsigned n, const double *x, double *g, void *d) { (void) n; (void) x; (void) g; (void) d; return -2; }
static double c3(unsigned n, const double *x, double *g, void *d) { (void) n; (void) x; (void) g; (void) d; return -3; }
static void m1(unsigned m, double *r, unsigned n, const double *x, double *g, void *d) { (void) m; (void) r; (void) n; (void) x; (void) g; (void) d; }
static void m2(unsigned m, double *r, unsigned n, const double *x, double *g, void *d) { (void) m; (void) r; (void) n; (void) x; (void) g; (void) d; }
static void m3(unsigned m, double *r, unsigned n, const double *x, double *g, void *d) { (void) m; (void) r; (void) n; (void) x; (void) g; (void) d; }
static void p1(unsigned n, const double *x, const double *v, double *vp, void *d) { (void) n; (void) x; (void) v; (void) vp; (void) d; }
static void p2(unsigned n, const double *x, const double *v, double *vp, void *d) { (void) n; (void) x; (void) v; (void) vp; (void) d; }

static nlopt_func FS[] = { NULL, f1, f2, f3, c1, c2, c3 };
static nlopt_mfunc MS[] = { NULL, m1, m2, m3 };
static nlopt_precond PS[] = { NULL, p1, p2 };
static int fid(nlopt_func f) { int i; for (i = 0; i < 7; ++i) if (FS[i] == f) return i; return 99; }
static int mid(nlopt_mfunc f) { int i; for (i = 0; i < 4; ++i) if (MS[i] == f) return i; return 99; }
static int pid_(nlopt_precond f) { int i; for (i = 0; i < 3; ++i) if (PS[i] == f) return i; return 99; }

static void *munge_destroy(void *p) { addev(5, DID(p), 0, 0); return NULL; }
static void *munge_copy(void *p)
{
    int id;
    ++munge_copy_count;
    if (munge_copy_fail_at > 0 && munge_copy_count == munge_copy_fail_at) { addev(6, DID(p), 0, 0); return NULL; }
    id = nextdata++;
    addev(6, DID(p), id, 0);
    return DPTR(id);
}

/* ---------------------------------------------------------------- objects */
#define NSLOT 8
static nlopt_opt slots[NSLOT];

static const char *label_in(nlopt_opt o, void *p, int depth)
{
    unsigned i;
    static char buf[32];
    if (!o) return NULL;
    if ((void *) o == p) return depth ? "lopt" : "opt";
    if (o->lb == p) return "lb";
    if (o->ub == p) return "ub";
    if (o->xtol_abs == p) return "xtol_abs";
    if (o->x_weights == p) return "xw";
    if (o->dx == p) return "dx";
    if ((void *) o->fc == p) return "fc";
    if ((void *) o->h == p) return "h";
    if ((void *) o->params == p) return "params";
    if ((void *) o->errmsg == p) return "errmsg";
    if (o->work == p) return "work";
    for (i = 0; i < o->m; ++i) if (o->fc && o->fc[i].tol == p) return "tol";
    for (i = 0; i < o->p; ++i) if (o->h && o->h[i].tol == p) return "tol";
    for (i = 0; i < o->nparams; ++i) if (o->params && o->params[i].name == p) return "name";
    (void) buf;
    return label_in(o->local_opt, p, depth + 1);
}

static const char *label(void *p)
{
    int s;
    for (s = 0; s < NSLOT; ++s) {
        const char *l = label_in(slots[s], p, 0);
        if (l) return l;
    }
    return "tmp";
}

static void print_events(void)
{
    int i;
    printf(" ev=[");
    for (i = 0; i < nev; ++i) {
        ev_t *e = &evs[i];
        if (i) printf(",");
        switch (e->kind) {
        case 0: {
            const char *l = blks[e->a].live ? label(blks[e->a].p) : "tmp";
            if (!strcmp(l, "errmsg")) printf("A%d:errmsg", e->a); else printf("A%d:%s:%zu", e->a, l, e->sz);
            break;
        }
        case 1: printf("X"); break;
        case 2: {
            const char *l = blks[e->b].live ? label(blks[e->b].p) : "tmp";
            if (!strcmp(l, "errmsg")) printf("R%d>%d:errmsg", e->a, e->b); else printf("R%d>%d:%s:%zu", e->a, e->b, l, e->sz);
            break;
        }
        case 3: printf("RX%d", e->a); break;
        case 4: printf("F%d", e->a); break;
        case 5: printf("MD%d", e->a); break;
        case 6: printf("MC%d>%d", e->a, e->b); break;
        default: printf("BADFREE");
        }
    }
    printf("]");
}

static void snap_constraints(unsigned m, unsigned m_alloc, nlopt_constraint * c)
{
    unsigned i;
    printf("%u/%u[", m, m_alloc);
    for (i = 0; i < m; ++i) {
        printf("%s%u:%c%d:p%d:d%d:", i ? ";" : "", c[i].m, c[i].f ? 's' : 'v', c[i].f ? fid(c[i].f) : mid(c[i].mf), pid_(c[i].pre), DID(c[i].f_data));
        phexlist(stdout, c[i].tol, (int) c[i].m);
    }
    printf("]");
}

static void snap(nlopt_opt o, int depth)
{
    unsigned n = o->n, i;
    (void) depth;
    printf("{alg=%d n=%u", (int) o->algorithm, n);
    printf(" f=%d d=%d pre=%d max=%d", fid(o->f), DID(o->f_data), pid_(o->pre), o->maximize);
    printf(" lb="); phexlist(stdout, o->lb, (int) n);
    printf(" ub="); phexlist(stdout, o->ub, (int) n);
    printf(" stopval="); phex(stdout, o->stopval);
    printf(" ftol_rel="); phex(stdout, o->ftol_rel);
    printf(" ftol_abs="); phex(stdout, o->ftol_abs);
    printf(" xtol_rel="); phex(stdout, o->xtol_rel);
    printf(" xtol_abs="); phexlist(stdout, o->xtol_abs, (int) n);
    printf(" xw="); phexlist(stdout, o->x_weights, (int) n);
    printf(" maxeval=%d maxtime=", o->maxeval); phex(stdout, o->maxtime);
    printf(" numevals=%d fstop=%d pop=%u vs=%u", o->numevals, o->force_stop, o->stochastic_population, o->vector_storage);
    printf(" dx="); phexlist(stdout, o->dx, (int) n);
    printf(" fc="); snap_constraints(o->m, o->m_alloc, o->fc);
    printf(" h="); snap_constraints(o->p, o->p_alloc, o->h);
    printf(" params=%u[", o->nparams);
    for (i = 0; i < o->nparams; ++i) {
        printf("%s%s:", i ? ";" : "", o->params[i].name ? o->params[i].name : "(null)");
        phex(stdout, o->params[i].val);
    }
    printf("] munge=%d%d err=%d", o->munge_on_destroy != NULL, o->munge_on_copy != NULL, o->errmsg != NULL);
    printf(" local=");
    if (o->local_opt) snap(o->local_opt, depth + 1); else printf("-");
    printf("}");
}

static void print_state(void)
{
    int s;
    for (s = 0; s < NSLOT; ++s)
        if (slots[s]) { printf(" |o%d=", s); snap(slots[s], 0); }
}

/* ---------------------------------------------------------------- op dispatch */
static nlopt_opt SL(const char *t) { return (t[0] == 'o') ? slots[atoi(t + 1)] : NULL; }

static double *LIST(const char *t, unsigned want)
{
    double *v = NULL;
    int n = parselist(t, &v);
    (void) want;
    if (n < 0) return NULL;
    return v;
}

static void do_op(char *line)
{
    char *tok[16];
    int nt = 0;
    char *save = NULL, *t;
    long ret = 0;
    int kind = 0;               /* 0 code, 1 pointer, 2 void, 3 already printed */
    int getn = -1;
    double getv[64];
    for (t = strtok_r(line, " \n", &save); t && nt < 16; t = strtok_r(NULL, " \n", &save)) tok[nt++] = t;
    if (!nt) return;
    nev = 0; alloc_count = 0; munge_copy_count = 0;
#define OP(name, cnt) (!strcmp(tok[0], name) && nt >= (cnt))
    if (OP("oracle", 2)) { fail_at = atol(tok[1]); printf("-\n"); return; }
    if (OP("mcfail", 2)) { munge_copy_fail_at = atoi(tok[1]); printf("-\n"); return; }
#define CALL(e) do { tracking = 1; ret = (long) (e); tracking = 0; } while (0)
    if (OP("create", 4)) {
        int s = atoi(tok[1] + 1);
        nlopt_opt o;
        tracking = 1; o = nlopt_create((nlopt_algorithm) atoi(tok[2]), (unsigned) atoi(tok[3])); tracking = 0;
        slots[s] = o; kind = 1; ret = o != NULL;
    } else if (OP("destroy", 2)) {
        tracking = 1; nlopt_destroy(SL(tok[1])); tracking = 0;
        if (tok[1][0] == 'o') slots[atoi(tok[1] + 1)] = NULL;
        kind = 2;
    } else if (OP("copy", 3)) {
        nlopt_opt o;
        tracking = 1; o = nlopt_copy(SL(tok[1])); tracking = 0;
        slots[atoi(tok[2] + 1)] = o; kind = 1; ret = o != NULL;
    } else if (OP("set_min", 4)) CALL(nlopt_set_min_objective(SL(tok[1]), FS[atoi(tok[2])], DPTR(atoi(tok[3]))));
    else if (OP("set_max", 4)) CALL(nlopt_set_max_objective(SL(tok[1]), FS[atoi(tok[2])], DPTR(atoi(tok[3]))));
    else if (OP("set_pmin", 5)) CALL(nlopt_set_precond_min_objective(SL(tok[1]), FS[atoi(tok[2])], PS[atoi(tok[3])], DPTR(atoi(tok[4]))));
    else if (OP("set_pmax", 5)) CALL(nlopt_set_precond_max_objective(SL(tok[1]), FS[atoi(tok[2])], PS[atoi(tok[3])], DPTR(atoi(tok[4]))));
    else if (OP("set_lb", 3)) { double *v = LIST(tok[2], 0); CALL(nlopt_set_lower_bounds(SL(tok[1]), v)); free(v); }
    else if (OP("set_ub", 3)) { double *v = LIST(tok[2], 0); CALL(nlopt_set_upper_bounds(SL(tok[1]), v)); free(v); }
    else if (OP("set_lb1", 3)) CALL(nlopt_set_lower_bounds1(SL(tok[1]), parsehex(tok[2])));
    else if (OP("set_ub1", 3)) CALL(nlopt_set_upper_bounds1(SL(tok[1]), parsehex(tok[2])));
    else if (OP("set_lbi", 4)) CALL(nlopt_set_lower_bound(SL(tok[1]), atoi(tok[2]), parsehex(tok[3])));
    else if (OP("set_ubi", 4)) CALL(nlopt_set_upper_bound(SL(tok[1]), atoi(tok[2]), parsehex(tok[3])));
    else if (OP("get_lb_null", 2)) CALL(nlopt_get_lower_bounds(SL(tok[1]), NULL));
    else if (OP("get_ub_null", 2)) CALL(nlopt_get_upper_bounds(SL(tok[1]), NULL));
    else if (OP("get_xtol_abs_null", 2)) CALL(nlopt_get_xtol_abs(SL(tok[1]), NULL));
    else if (OP("get_xw_null", 2)) CALL(nlopt_get_x_weights(SL(tok[1]), NULL));
    else if (OP("add_ineq", 5)) CALL(nlopt_add_inequality_constraint(SL(tok[1]), FS[atoi(tok[2])], DPTR(atoi(tok[3])), parsehex(tok[4])));
    else if (OP("add_eq", 5)) CALL(nlopt_add_equality_constraint(SL(tok[1]), FS[atoi(tok[2])], DPTR(atoi(tok[3])), parsehex(tok[4])));
    else if (OP("add_pineq", 6)) CALL(nlopt_add_precond_inequality_constraint(SL(tok[1]), FS[atoi(tok[2])], PS[atoi(tok[3])], DPTR(atoi(tok[4])), parsehex(tok[5])));
    else if (OP("add_peq", 6)) CALL(nlopt_add_precond_equality_constraint(SL(tok[1]), FS[atoi(tok[2])], PS[atoi(tok[3])], DPTR(atoi(tok[4])), parsehex(tok[5])));
    else if (OP("add_ineqm", 6)) { double *v = LIST(tok[5], 0); CALL(nlopt_add_inequality_mconstraint(SL(tok[1]), (unsigned) atoi(tok[2]), MS[atoi(tok[3])], DPTR(atoi(tok[4])), v)); free(v); }
    else if (OP("add_eqm", 6)) { double *v = LIST(tok[5], 0); CALL(nlopt_add_equality_mconstraint(SL(tok[1]), (unsigned) atoi(tok[2]), MS[atoi(tok[3])], DPTR(atoi(tok[4])), v)); free(v); }
    else if (OP("rm_ineq", 2)) CALL(nlopt_remove_inequality_constraints(SL(tok[1])));
    else if (OP("rm_eq", 2)) CALL(nlopt_remove_equality_constraints(SL(tok[1])));
    else if (OP("set_stopval", 3)) CALL(nlopt_set_stopval(SL(tok[1]), parsehex(tok[2])));
    else if (OP("set_ftol_rel", 3)) CALL(nlopt_set_ftol_rel(SL(tok[1]), parsehex(tok[2])));
    else if (OP("set_ftol_abs", 3)) CALL(nlopt_set_ftol_abs(SL(tok[1]), parsehex(tok[2])));
    else if (OP("set_xtol_rel", 3)) CALL(nlopt_set_xtol_rel(SL(tok[1]), parsehex(tok[2])));
    else if (OP("set_xtol_abs", 3)) { double *v = LIST(tok[2], 0); CALL(nlopt_set_xtol_abs(SL(tok[1]), v)); free(v); }
    else if (OP("set_xtol_abs1", 3)) CALL(nlopt_set_xtol_abs1(SL(tok[1]), parsehex(tok[2])));
    else if (OP("set_xw", 3)) { double *v = LIST(tok[2], 0); CALL(nlopt_set_x_weights(SL(tok[1]), v)); free(v); }
    else if (OP("set_xw1", 3)) CALL(nlopt_set_x_weights1(SL(tok[1]), parsehex(tok[2])));
    else if (OP("set_maxeval", 3)) CALL(nlopt_set_maxeval(SL(tok[1]), atoi(tok[2])));
    else if (OP("set_maxtime", 3)) CALL(nlopt_set_maxtime(SL(tok[1]), parsehex(tok[2])));
    else if (OP("set_force_stop", 3)) CALL(nlopt_set_force_stop(SL(tok[1]), atoi(tok[2])));
    else if (OP("force_stop", 2)) CALL(nlopt_force_stop(SL(tok[1])));
    else if (OP("set_local", 3)) CALL(nlopt_set_local_optimizer(SL(tok[1]), SL(tok[2])));
    else if (OP("set_pop", 3)) CALL(nlopt_set_population(SL(tok[1]), (unsigned) atoi(tok[2])));
    else if (OP("set_vs", 3)) CALL(nlopt_set_vector_storage(SL(tok[1]), (unsigned) atoi(tok[2])));
    else if (OP("set_dx", 3)) { double *v = LIST(tok[2], 0); CALL(nlopt_set_initial_step(SL(tok[1]), v)); free(v); }
    else if (OP("set_dx1", 3)) CALL(nlopt_set_initial_step1(SL(tok[1]), parsehex(tok[2])));
    else if (OP("set_default_dx", 3)) { double *v = LIST(tok[2], 0); CALL(nlopt_set_default_initial_step(SL(tok[1]), v)); free(v); }
    else if (OP("get_dx", 3)) {
        double *v = LIST(tok[2], 0), o_[64];
        nlopt_opt o = SL(tok[1]);
        CALL(nlopt_get_initial_step(o, v, o_)); free(v);
        if (ret == 1) { getn = o ? (int) o->n : 0; memcpy(getv, o_, sizeof(double) * (size_t) getn); }
    }
    else if (OP("set_munge", 4)) { nlopt_set_munge(SL(tok[1]), atoi(tok[2]) ? munge_destroy : NULL, atoi(tok[3]) ? munge_copy : NULL); kind = 2; }
    else if (OP("get_lb", 2)) { double o_[64]; nlopt_opt o = SL(tok[1]); CALL(nlopt_get_lower_bounds(o, o_)); getn = o ? (int) o->n : 0; memcpy(getv, o_, sizeof(double) * (size_t) getn); }
    else if (OP("get_ub", 2)) { double o_[64]; nlopt_opt o = SL(tok[1]); CALL(nlopt_get_upper_bounds(o, o_)); getn = o ? (int) o->n : 0; memcpy(getv, o_, sizeof(double) * (size_t) getn); }
    else if (OP("get_xtol_abs", 2)) { double o_[64]; nlopt_opt o = SL(tok[1]); CALL(nlopt_get_xtol_abs(o, o_)); getn = o ? (int) o->n : 0; memcpy(getv, o_, sizeof(double) * (size_t) getn); }
    else if (OP("get_xw", 2)) { double o_[64]; nlopt_opt o = SL(tok[1]); CALL(nlopt_get_x_weights(o, o_)); getn = o ? (int) o->n : 0; memcpy(getv, o_, sizeof(double) * (size_t) getn); }
    else if (OP("get_scalars", 2)) {
        nlopt_opt o = SL(tok[1]);
        kind = 3;
        if (!o) printf("crash"); else {
        printf("alg=%d n=%u stopval=", (int) nlopt_get_algorithm(o), nlopt_get_dimension(o)); phex(stdout, nlopt_get_stopval(o));
        printf(" ftol_rel="); phex(stdout, nlopt_get_ftol_rel(o)); printf(" ftol_abs="); phex(stdout, nlopt_get_ftol_abs(o));
        printf(" xtol_rel="); phex(stdout, nlopt_get_xtol_rel(o)); printf(" maxeval=%d maxtime=", nlopt_get_maxeval(o)); phex(stdout, nlopt_get_maxtime(o));
        printf(" numevals=%d fstop=%d pop=%u vs=%u nparams=%u", nlopt_get_numevals(o), nlopt_get_force_stop(o), nlopt_get_population(o), nlopt_get_vector_storage(o), nlopt_num_params(o));
        }
    }
    else if (OP("get_param", 4)) { kind = 3; phex(stdout, nlopt_get_param(SL(tok[1]), strcmp(tok[2], "null") ? tok[2] : NULL, parsehex(tok[3]))); printf(":%d", nlopt_has_param(SL(tok[1]), strcmp(tok[2], "null") ? tok[2] : NULL)); }
    else if (OP("nth_param", 3)) { const char *nm = nlopt_nth_param(SL(tok[1]), (unsigned) atoi(tok[2])); kind = 3; printf("%s", nm ? nm : "(null)"); }
    else if (OP("set_param", 4)) CALL(nlopt_set_param(SL(tok[1]), strcmp(tok[2], "null") ? tok[2] : NULL, parsehex(tok[3])));
    else if (OP("set_param_long", 3)) {
        char *nm = (char *) __real_malloc(2000); memset(nm, 'a', 1999); nm[1999] = 0;
        CALL(nlopt_set_param(SL(tok[1]), nm, parsehex(tok[2]))); __real_free(nm);
    }
    else { tracking = 0; printf("bad-op\n"); return; }
    tracking = 0;
    fail_at = -1; munge_copy_fail_at = -1;
    if (kind == 0) printf("%ld", ret); else if (kind == 1) printf("%s", ret ? "ptr" : "null"); else if (kind == 2) printf("-");
    if (getn >= 0 && ret == 1) { printf(" out="); phexlist(stdout, getv, getn); }
    print_events();
    print_state();
    printf("\n");
}

static void end_history(void)
{
    /* leak accounting: destroy everything, then every tracked block must be dead */
    int s, i, leaks = 0;
    nev = 0;
    tracking = 1;
    for (s = 0; s < NSLOT; ++s) if (slots[s]) { nlopt_destroy(slots[s]); slots[s] = NULL; }
    tracking = 0;
    for (i = 0; i < nblk; ++i) if (blks[i].live) ++leaks;
    printf("end leaks=%d", leaks);
    print_events();
    printf("\n");
}

int main(void)
{
    char *line = NULL;
    size_t cap = 0;
    pid_t child = 0;
    int pfd[2] = { -1, -1 };
    FILE *w = NULL;
    setvbuf(stdout, NULL, _IOLBF, 0);
    printf("sizes opt=%zu con=%zu par=%zu\n", sizeof(struct nlopt_opt_s), sizeof(nlopt_constraint), sizeof(nlopt_opt_param));
    /* parent: feeds each history to a fresh child through a pipe */
    while (1) {
        ssize_t got = getline(&line, &cap, stdin);
        int newhist = got <= 0 || !strncmp(line, "history", 7);
        if (newhist && child) {
            int st = 0;
            fclose(w); w = NULL;
            waitpid(child, &st, 0);
            if (WIFSIGNALED(st)) printf("CRASH sig=%d\n", WTERMSIG(st));
            else if (WEXITSTATUS(st)) printf("CRASH exit=%d\n", WEXITSTATUS(st));
            child = 0;
        }
        if (got <= 0) break;
        if (newhist) {
            printf("%s", line);
            fflush(stdout);
            if (pipe(pfd)) return 2;
            child = fork();
            if (child == 0) {
                FILE *r;
                char *l2 = NULL; size_t c2 = 0;
                close(pfd[1]);
                r = fdopen(pfd[0], "r");
                alarm(20);
                while (getline(&l2, &c2, r) > 0) do_op(l2);
                end_history();
                fflush(stdout);
                _exit(0);
            }
            close(pfd[0]);
            w = fdopen(pfd[1], "w");
            continue;
        }
        if (w) { fputs(line, w); fflush(w); }
    }
    return 0;
}
