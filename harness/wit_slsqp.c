/* replay of the Lean witness Nlopt.C06.slsqp_best_feasible_full_false on the real library: with unequal tolerances the SLSQP
   driver keeps an infeasible incumbent (violation 1e-9 > tolerance 0 on constraint 1) although points that are feasible within
   tolerance (violation 1e-3 <= tolerance 1e-2 on constraint 2, larger objective) are evaluated afterwards.
   exit 1 = the returned point is infeasible although a feasible point was evaluated. */
#include <nlopt.h>
#include <stdio.h>
static int nfeas = 0;
static int at0(const double *x) { return x[0] == 0.5; }
static double f(unsigned n, const double *x, double *g, void *d) { (void) n; (void) d; if (g) g[0] = -1.0; if (!at0(x)) ++nfeas; return at0(x) ? 1.0 : 2.0 - 1e-3 * x[0]; }
static double c1(unsigned n, const double *x, double *g, void *d) { (void) n; (void) d; if (g) g[0] = 0; return at0(x) ? 1e-9 : -1.0; }
static double c2(unsigned n, const double *x, double *g, void *d) { (void) n; (void) d; if (g) g[0] = 0; return at0(x) ? -1.0 : 1e-3; }
int main(void)
{
    nlopt_opt o = nlopt_create(NLOPT_LD_SLSQP, 1);
    double lb = 0, ub = 1, x = 0.5, mf = 0;
    int r, infeasible;
    nlopt_set_lower_bounds(o, &lb); nlopt_set_upper_bounds(o, &ub);
    nlopt_set_min_objective(o, f, 0);
    nlopt_add_inequality_constraint(o, c1, 0, 0.0);
    nlopt_add_inequality_constraint(o, c2, 0, 1e-2);
    nlopt_set_maxeval(o, 50);
    r = nlopt_optimize(o, &x, &mf);
    infeasible = !(c1(1, &x, 0, 0) <= 0.0 && c2(1, &x, 0, 0) <= 1e-2);
    printf("ret=%d x=%.17g minf=%.17g c1=%g c2=%g feasible_points_evaluated=%d\n", r, x, mf, c1(1, &x, 0, 0), c2(1, &x, 0, 0), nfeas);
    nlopt_destroy(o);
    return infeasible && nfeas > 0;
}
