/* h_threads: C16 harness.  stdin: one job per line "alg=.. n=.. seed=.. maxeval=.. obj=.. lb=.. ub=.. x0=.. oc=..";
   argv[1] = number of threads K (1 = sequential reference).  Job i is executed by thread i mod K; every thread seeds its
   own generator with nlopt_srand(seed) before each job; each job's evaluation trace and result go to a private buffer and
   are printed in job order at the end.  No hooks are installed (the virtual clock is per thread). */
#include "hcommon.h"
#include <pthread.h>
#include "nlopt.h"
#include "nlopt-verif.h"

#define MAXJOBS 4096
typedef struct { char *spec; char *buf; size_t len; } job_t;
static job_t jobs[MAXJOBS];
static int njobs = 0, K = 1;

typedef struct { FILE *out; int objkind; double *oc; int oc_n; long nobj; } tctx_t;
static __thread double t_clock = 0;
static double hook_seconds(void) { return t_clock; }

static double objective(unsigned n, const double *x, double *grad, void *data)
{
    tctx_t *c = (tctx_t *) data;
    unsigned i;
    double v = 0;
    ++c->nobj;
    switch (c->objkind) {
    case 1:
        if (grad) for (i = 0; i < n; ++i) grad[i] = 0;
        for (i = 0; i < n; ++i) {
            double xi = x[i] - c->oc[i % c->oc_n];
            v += (1 - xi) * (1 - xi);
            if (grad) grad[i] += -2 * (1 - xi);
            if (i + 1 < n) { double xj = x[i + 1] - c->oc[(i + 1) % c->oc_n], t = xj - xi * xi; v += 100 * t * t; if (grad) { grad[i] += -400 * t * xi; grad[i + 1] += 200 * t; } }
        }
        break;
    case 3:
        for (i = 0; i < n; ++i) { double t = x[i] - c->oc[i % c->oc_n]; v += t * t + 2 * sin(5 * t); if (grad) grad[i] = 2 * t + 10 * cos(5 * t); }
        break;
    default:
        for (i = 0; i < n; ++i) { double t = x[i] - c->oc[i % c->oc_n], w = 1 + 0.5 * i; v += w * t * t; if (grad) grad[i] = 2 * w * t; }
    }
    fprintf(c->out, "U x="); phexlist(c->out, x, (int) n); fprintf(c->out, " val="); phex(c->out, v); fprintf(c->out, "\n");
    return v;
}

static void run_job(job_t *j)
{
    char b[4096];
    const char *v;
    const char *line = j->spec;
    tctx_t c;
    unsigned n = (unsigned) getint(line, "n", 1), i;
    double *lb = NULL, *ub = NULL, *x0 = NULL, *x, optf = 0;
    nlopt_opt o;
    nlopt_result ret;
    memset(&c, 0, sizeof c);
    c.out = open_memstream(&j->buf, &j->len);
    c.objkind = (int) getint(line, "obj", 0);
    if ((v = getkey(line, "oc", b, sizeof b))) c.oc_n = parselist(v, &c.oc);
    if (!c.oc || c.oc_n <= 0) { c.oc = (double *) calloc(1, sizeof(double)); c.oc_n = 1; }
    t_clock = 0;
    nlopt_srand((unsigned long) getint(line, "seed", 1));
    o = nlopt_create((nlopt_algorithm) getint(line, "alg", 0), n);
    nlopt_set_min_objective(o, objective, &c);
    if ((v = getkey(line, "lb", b, sizeof b)) && parselist(v, &lb) >= 0) nlopt_set_lower_bounds(o, lb);
    if ((v = getkey(line, "ub", b, sizeof b)) && parselist(v, &ub) >= 0) nlopt_set_upper_bounds(o, ub);
    if ((v = getkey(line, "maxeval", b, sizeof b))) nlopt_set_maxeval(o, atoi(v));
    if ((v = getkey(line, "xtol_rel", b, sizeof b))) nlopt_set_xtol_rel(o, parsehex(v));
    if ((v = getkey(line, "x0", b, sizeof b))) parselist(v, &x0);
    if ((v = getkey(line, "local", b, sizeof b))) {
        nlopt_opt l = nlopt_create((nlopt_algorithm) atoi(v), n);
        nlopt_set_maxeval(l, 15); nlopt_set_xtol_rel(l, 1e-3);
        nlopt_set_local_optimizer(o, l); nlopt_destroy(l);
    }
    x = (double *) malloc(sizeof(double) * (n + 1));
    for (i = 0; i < n; ++i) x[i] = x0 ? x0[i] : 0.0;
    ret = nlopt_optimize(o, x, &optf);
    fprintf(c.out, "R ret=%d optf=", (int) ret); phex(c.out, optf); fprintf(c.out, " x="); phexlist(c.out, x, (int) n);
    fprintf(c.out, " evals=%ld numevals=%d\n", c.nobj, nlopt_get_numevals(o));
    nlopt_destroy(o);
    free(x); free(lb); free(ub); free(x0); free(c.oc);
    fclose(c.out);
}

static void *worker(void *arg)
{
    long id = (long) arg;
    int i;
    for (i = (int) id; i < njobs; i += K) run_job(&jobs[i]);
    return NULL;
}

int main(int argc, char **argv)
{
    char *line = NULL;
    size_t cap = 0;
    pthread_t th[64];
    long t;
    int i;
    K = argc > 1 ? atoi(argv[1]) : 1;
    if (K < 1) K = 1;
    if (K > 64) K = 64;
    nlopt_verif_hooks.seconds = hook_seconds;
    while (getline(&line, &cap, stdin) > 0 && njobs < MAXJOBS) {
        if (line[0] == '\n') continue;
        jobs[njobs++].spec = strdup(line);
    }
    for (t = 0; t < K; ++t) pthread_create(&th[t], NULL, worker, (void *) t);
    for (t = 0; t < K; ++t) pthread_join(th[t], NULL);
    for (i = 0; i < njobs; ++i) { printf("JOB %d\n", i); fwrite(jobs[i].buf, 1, jobs[i].len, stdout); }
    return 0;
}
