/* h_util <stream>: S-util correspondence harness for the utility layer.
   streams: mt (MT19937 + samplers), stop (stop.c predicates), sobol, rb (red-black tree), rescale (rescale.c).
   One op per line on stdin, one canonical result line per op on stdout. */
#include "hcommon.h"
#include "nlopt.h"
#include "nlopt-util.h"
#include "nlopt-verif.h"
#include "redblack.h"

/* the Sobol' internals are static: compile the repo's current source into this harness */
#include "sobolseq.c"

/* ------------------------------------------------------------------ mt */
static unsigned forced[256];
static int nforced = 0, iforced = 0;
static int hook_raw(unsigned *out)
{
    if (iforced < nforced) { *out = forced[iforced++]; return 1; }
    return 0;
}

/* raw 32-bit output: nlopt_iurand(n) with n = 2^31-1 does not give it; use two halves via
   urand?  No: the raw word is observable exactly through nlopt_iurand on a power of two twice?
   Simplest exact observation: nlopt_iurand(2147483647) loses information, so instead we
   include mt19937ar.c's public seeding and read the stream through nlopt_urand's integer pair:
   genrand_res53 uses (a>>5, b>>6); that also loses bits.  Therefore the raw stream is observed
   through a second copy of the generator compiled from the repo's source below. */
#define nlopt_init_genrand rawcopy_init_genrand
#define nlopt_urand rawcopy_urand
#define nlopt_iurand rawcopy_iurand
#define nlopt_nrand rawcopy_nrand
#define nlopt_verif_hooks rawcopy_hooks
static nlopt_verif_hooks_t rawcopy_hooks;
#include "mt19937ar.c"
#undef nlopt_init_genrand
#undef nlopt_urand
#undef nlopt_iurand
#undef nlopt_nrand
#undef nlopt_verif_hooks
#undef N
#undef M

static void do_mt(char *line)
{
    char *tok[8]; int nt = 0; char *save = NULL, *t;
    for (t = strtok_r(line, " \n", &save); t && nt < 8; t = strtok_r(NULL, " \n", &save)) tok[nt++] = t;
    if (!nt) return;
    if (!strcmp(tok[0], "seed") && nt >= 2) {
        unsigned long s = strtoul(tok[1], NULL, 10);
        nlopt_srand(s);                 /* the library's generator (samplers) */
        rawcopy_init_genrand(s);        /* same source, raw words visible */
        printf("ok\n");
    } else if (!strcmp(tok[0], "next")) {
        printf("%08x\n", (unsigned) nlopt_genrand_int32());
    } else if (!strcmp(tok[0], "nextn") && nt >= 2) {
        int k = atoi(tok[1]), i;
        for (i = 0; i < k; ++i) printf("%s%08x", i ? " " : "", (unsigned) nlopt_genrand_int32());
        printf("\n");
    } else if (!strcmp(tok[0], "force") && nt >= 2) {
        char *s2 = NULL, *w;
        nforced = iforced = 0;
        for (w = strtok_r(tok[1], ",", &s2); w && nforced < 256; w = strtok_r(NULL, ",", &s2))
            forced[nforced++] = (unsigned) strtoul(w, NULL, 16);
        nlopt_verif_hooks.rng_raw = hook_raw;
        printf("ok\n");
    } else if (!strcmp(tok[0], "urand") && nt >= 3) {
        phex(stdout, nlopt_urand(parsehex(tok[1]), parsehex(tok[2]))); printf("\n");
    } else if (!strcmp(tok[0], "iurand") && nt >= 2) {
        printf("%d\n", nlopt_iurand(atoi(tok[1])));
    } else if (!strcmp(tok[0], "nrand") && nt >= 3) {
        phex(stdout, nlopt_nrand(parsehex(tok[1]), parsehex(tok[2]))); printf("\n");
    } else printf("bad-op\n");
}

/* ------------------------------------------------------------------ stop */
static double vnow = 0;
static double hook_seconds(void) { return vnow; }

/* objective that reads back the limits in force during nlopt_optimize_limited (first call) */
static int lim_seen_me; static double lim_seen_mt;
static double lim_obj(unsigned n, const double *x, double *g, void *d)
{
    nlopt_opt o = (nlopt_opt) d;
    (void) n; (void) g;
    if (lim_seen_me == -12345) { lim_seen_me = nlopt_get_maxeval(o); lim_seen_mt = nlopt_get_maxtime(o); }
    return x[0] * x[0];
}

static void do_stop(char *line)
{
    char *tok[16]; int nt = 0; char *save = NULL, *t;
    nlopt_stopping s;
    int nevals = 0, fstop = 0;
    double *xa = NULL, *xw = NULL, *a = NULL, *b = NULL;
    for (t = strtok_r(line, " \n", &save); t && nt < 16; t = strtok_r(NULL, " \n", &save)) tok[nt++] = t;
    if (!nt) return;
    memset(&s, 0, sizeof s);
    s.nevals_p = &nevals; s.force_stop = &fstop;
    nlopt_verif_hooks.seconds = hook_seconds;
    if (!strcmp(tok[0], "evals") && nt >= 3) {          /* evals maxeval nevals */
        s.maxeval = atoi(tok[1]); nevals = atoi(tok[2]);
        printf("%d\n", nlopt_stop_evals(&s));
    } else if (!strcmp(tok[0], "time") && nt >= 4) {    /* time start maxtime now */
        s.start = parsehex(tok[1]); s.maxtime = parsehex(tok[2]); vnow = parsehex(tok[3]);
        printf("%d\n", nlopt_stop_time(&s));
    } else if (!strcmp(tok[0], "evalstime") && nt >= 6) {  /* maxeval nevals start maxtime now */
        s.maxeval = atoi(tok[1]); nevals = atoi(tok[2]); s.start = parsehex(tok[3]); s.maxtime = parsehex(tok[4]); vnow = parsehex(tok[5]);
        printf("%d\n", nlopt_stop_evalstime(&s));
    } else if (!strcmp(tok[0], "cls") && nt >= 2) {      /* cls x: nlopt_isinf nlopt_isfinite nlopt_istiny nlopt_isnan */
        double v = parsehex(tok[1]);
        printf("%d %d %d %d\n", !!nlopt_isinf(v), !!nlopt_isfinite(v), !!nlopt_istiny(v), !!nlopt_isnan(v));
    } else if (!strcmp(tok[0], "forced") && nt >= 2) {
        fstop = atoi(tok[1]);
        printf("%d\n", nlopt_stop_forced(&s) != 0);
    } else if (!strcmp(tok[0], "ftol") && nt >= 5) {    /* ftol rel abs f oldf */
        s.ftol_rel = parsehex(tok[1]); s.ftol_abs = parsehex(tok[2]);
        printf("%d\n", nlopt_stop_ftol(&s, parsehex(tok[3]), parsehex(tok[4])));
    } else if (!strcmp(tok[0], "f") && nt >= 6) {       /* f minf_max rel abs f oldf */
        s.minf_max = parsehex(tok[1]); s.ftol_rel = parsehex(tok[2]); s.ftol_abs = parsehex(tok[3]);
        printf("%d\n", nlopt_stop_f(&s, parsehex(tok[4]), parsehex(tok[5])));
    } else if ((!strcmp(tok[0], "x") || !strcmp(tok[0], "dx")) && nt >= 6) {  /* x xtol_rel xtol_abs|- xw|- x oldx */
        int n;
        s.xtol_rel = parsehex(tok[1]);
        parselist(tok[2], &xa); parselist(tok[3], &xw);
        n = parselist(tok[4], &a); parselist(tok[5], &b);
        s.n = (unsigned) (n < 0 ? 0 : n); s.xtol_abs = xa; s.x_weights = xw;
        printf("%d\n", tok[0][0] == 'x' ? nlopt_stop_x(&s, a, b) : nlopt_stop_dx(&s, a, b));
    } else if (!strcmp(tok[0], "limited") && nt >= 5) {
        /* limited save_maxeval maxeval save_maxtime maxtime: what nlopt_optimize_limited puts in force.
           Observed through an object whose objective reads the limits back. */
        nlopt_opt o = nlopt_create(NLOPT_LN_NELDERMEAD, 1);
        double x = 0.25, mf = 0;
        lim_seen_me = -12345; lim_seen_mt = -12345.0;
        nlopt_set_min_objective(o, lim_obj, o);
        nlopt_set_maxeval(o, atoi(tok[1]));
        nlopt_set_maxtime(o, parsehex(tok[3]));
        nlopt_set_xtol_rel(o, 0.5);
        nlopt_optimize_limited(o, &x, &mf, atoi(tok[2]), parsehex(tok[4]));
        printf("%d ", lim_seen_me); phex(stdout, lim_seen_mt);
        printf(" %d ", nlopt_get_maxeval(o)); phex(stdout, nlopt_get_maxtime(o)); printf("\n");
        nlopt_destroy(o);
    } else printf("bad-op\n");
    free(xa); free(xw); free(a); free(b);
}

/* ------------------------------------------------------------------ sobol */
static soboldata *sd = NULL;
static void do_sobol(char *line)
{
    char *tok[8]; int nt = 0; char *save = NULL, *t;
    for (t = strtok_r(line, " \n", &save); t && nt < 8; t = strtok_r(NULL, " \n", &save)) tok[nt++] = t;
    if (!nt) return;
    if (!strcmp(tok[0], "init") && nt >= 2) {
        if (sd) { nlopt_sobol_destroy(sd); sd = NULL; }
        sd = (soboldata *) nlopt_sobol_create((unsigned) atoi(tok[1]));
        printf("%s\n", sd ? "ok" : "fail");
    } else if (!strcmp(tok[0], "next") && sd) {
        double *x = (double *) malloc(sizeof(double) * sd->sdim);
        unsigned i;
        sobol_gen(sd, x);
        for (i = 0; i < sd->sdim; ++i) printf("%s%08x:%u", i ? " " : "", (unsigned) sd->x[i], sd->b[i]);
        printf("\n");
        free(x);
    } else if (!strcmp(tok[0], "nextv") && sd) {       /* the double values (bit patterns) */
        double *x = (double *) malloc(sizeof(double) * sd->sdim);
        nlopt_sobol_next01(sd, x);
        phexlist(stdout, x, (int) sd->sdim); printf("\n");
        free(x);
    } else if (!strcmp(tok[0], "skip") && nt >= 2 && sd) {
        double *x = (double *) malloc(sizeof(double) * sd->sdim);
        nlopt_sobol_skip(sd, (unsigned) strtoul(tok[1], NULL, 10), x);
        printf("ok\n");
        free(x);
    } else if (!strcmp(tok[0], "m") && nt >= 3 && sd) {
        printf("%08x\n", (unsigned) sd->m[atoi(tok[2])][atoi(tok[1])]);
    } else printf("bad-op\n");
}

/* ------------------------------------------------------------------ rb */
#define MAXKEY 100000
static rb_tree tree;
static int tree_inited = 0;
static double *keys[MAXKEY];    /* kid -> key storage {val, kid} */
static int cmp(rb_key a, rb_key b) { return a[0] < b[0] ? -1 : (a[0] > b[0] ? 1 : 0); }

static rb_node *node_of(rb_node *n, int kid)
{
    rb_node *r;
    extern rb_node nil;
    if (n == &nil) return NULL;
    if ((int) n->k[1] == kid) return n;
    r = node_of(n->l, kid);
    return r ? r : node_of(n->r, kid);
}

static void dump(rb_node *n)
{
    extern rb_node nil;
    if (n == &nil) { printf("."); return; }
    printf("(%c %d:%ld ", n->c == RED ? 'R' : 'B', (int) n->k[1], (long) n->k[0]);
    dump(n->l); printf(" "); dump(n->r); printf(")");
}

static void pkey(rb_node *n) { if (n) printf("%d\n", (int) n->k[1]); else printf("nil\n"); }

static void do_rb(char *line)
{
    char *tok[8]; int nt = 0; char *save = NULL, *t;
    double probe[2];
    for (t = strtok_r(line, " \n", &save); t && nt < 8; t = strtok_r(NULL, " \n", &save)) tok[nt++] = t;
    if (!nt) return;
    if (!tree_inited || !strcmp(tok[0], "reset")) {
        if (tree_inited) nlopt_rb_tree_destroy(&tree);
        nlopt_rb_tree_init(&tree, cmp); tree_inited = 1;
        if (!strcmp(tok[0], "reset")) { printf("ok\n"); return; }
    }
    if (!strcmp(tok[0], "ins") && nt >= 3) {
        int kid = atoi(tok[1]);
        if (kid < 0 || kid >= MAXKEY) { printf("bad-op\n"); return; }
        if (!keys[kid]) keys[kid] = (double *) malloc(2 * sizeof(double));
        keys[kid][0] = (double) atol(tok[2]); keys[kid][1] = kid;
        nlopt_rb_tree_insert(&tree, keys[kid]);
        printf("ok\n");
    } else if (!strcmp(tok[0], "rem") && nt >= 2) {
        rb_node *n = node_of(tree.root, atoi(tok[1]));
        if (!n) { printf("absent\n"); return; }
        n = nlopt_rb_tree_remove(&tree, n);
        free(n);
        printf("ok\n");
    } else if (!strcmp(tok[0], "rekey") && nt >= 3) {
        rb_node *n = node_of(tree.root, atoi(tok[1]));
        if (!n) { printf("absent\n"); return; }
        n->k[0] = (double) atol(tok[2]);
        nlopt_rb_tree_resort(&tree, n);
        printf("ok\n");
    } else if (!strcmp(tok[0], "min")) pkey(nlopt_rb_tree_min(&tree));
    else if (!strcmp(tok[0], "max")) pkey(nlopt_rb_tree_max(&tree));
    else if (!strcmp(tok[0], "succ") && nt >= 2) { rb_node *n = node_of(tree.root, atoi(tok[1])); if (!n) printf("nil\n"); else pkey(nlopt_rb_tree_succ(n)); }
    else if (!strcmp(tok[0], "pred") && nt >= 2) { rb_node *n = node_of(tree.root, atoi(tok[1])); if (!n) printf("nil\n"); else pkey(nlopt_rb_tree_pred(n)); }
    else if (!strcmp(tok[0], "find") && nt >= 2) { probe[0] = (double) atol(tok[1]); probe[1] = -1; pkey(nlopt_rb_tree_find(&tree, probe)); }
    else if (!strcmp(tok[0], "find_le") && nt >= 2) { probe[0] = (double) atol(tok[1]); probe[1] = -1; pkey(nlopt_rb_tree_find_le(&tree, probe)); }
    else if (!strcmp(tok[0], "find_lt") && nt >= 2) { probe[0] = (double) atol(tok[1]); probe[1] = -1; pkey(nlopt_rb_tree_find_lt(&tree, probe)); }
    else if (!strcmp(tok[0], "find_gt") && nt >= 2) { probe[0] = (double) atol(tok[1]); probe[1] = -1; pkey(nlopt_rb_tree_find_gt(&tree, probe)); }
    else if (!strcmp(tok[0], "n")) printf("%d\n", tree.N);
    else if (!strcmp(tok[0], "check")) printf("%d\n", nlopt_rb_tree_check(&tree));
    else if (!strcmp(tok[0], "dump")) { dump(tree.root); printf("\n"); }
    else printf("bad-op\n");
}

/* ------------------------------------------------------------------ rescale */
/* rescale.c: cr <dx> | rs <s|-> <x> | us <s|-> <x> | rb <lb> <ub> | sb <s> <lb> <ub> */
static void do_rescale(char *line)
{
    char *tok[8]; int nt = 0; char *save = NULL, *t;
    double *a = NULL, *b = NULL, *c = NULL;
    int n;
    for (t = strtok_r(line, " \n", &save); t && nt < 8; t = strtok_r(NULL, " \n", &save)) tok[nt++] = t;
    if (!nt) return;
    if (!strcmp(tok[0], "cr") && nt >= 2) {
        double *s;
        n = parselist(tok[1], &a);
        s = nlopt_compute_rescaling((unsigned) n, a);
        phexlist(stdout, s, n); printf("\n");
        free(s);
    } else if ((!strcmp(tok[0], "rs") || !strcmp(tok[0], "us")) && nt >= 3) {
        parselist(tok[1], &a);
        n = parselist(tok[2], &b);
        if (tok[0][0] == 'r') {           /* nlopt_new_rescaled = malloc + nlopt_rescale */
            c = nlopt_new_rescaled((unsigned) n, a, b);
        } else {
            c = (double *) malloc(sizeof(double) * (n > 0 ? n : 1));
            nlopt_unscale((unsigned) n, a, b, c);
        }
        phexlist(stdout, c, n); printf("\n");
    } else if (!strcmp(tok[0], "rb") && nt >= 3) {
        n = parselist(tok[1], &a); parselist(tok[2], &b);
        nlopt_reorder_bounds((unsigned) n, a, b);
        phexlist(stdout, a, n); printf(" "); phexlist(stdout, b, n); printf("\n");
    } else if (!strcmp(tok[0], "sb") && nt >= 4) {
        double *sl, *su;
        n = parselist(tok[1], &a); parselist(tok[2], &b); parselist(tok[3], &c);
        sl = nlopt_new_rescaled((unsigned) n, a, b);
        su = nlopt_new_rescaled((unsigned) n, a, c);
        nlopt_reorder_bounds((unsigned) n, sl, su);
        phexlist(stdout, sl, n); printf(" "); phexlist(stdout, su, n); printf("\n");
        free(sl); free(su);
    } else printf("bad-op\n");
    free(a); free(b); free(c);
}

int main(int argc, char **argv)
{
    char *line = NULL;
    size_t cap = 0;
    const char *stream = argc > 1 ? argv[1] : "";
    setvbuf(stdout, NULL, _IOFBF, 1 << 16);
    while (getline(&line, &cap, stdin) > 0) {
        if (!strcmp(stream, "mt")) do_mt(line);
        else if (!strcmp(stream, "stop")) do_stop(line);
        else if (!strcmp(stream, "sobol")) do_sobol(line);
        else if (!strcmp(stream, "rb")) do_rb(line);
        else if (!strcmp(stream, "rescale")) do_rescale(line);
        else { fprintf(stderr, "unknown stream\n"); return 2; }
    }
    fflush(stdout);
    return 0;
}
