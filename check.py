#!/usr/bin/env python3
"""check.py <property> [--tier quick|thorough] [--replay <file>]

Decides one property of /verif/properties.jsonl for the CURRENT working tree of /repo:
regenerates the generated Lean data from the C sources, rebuilds the Lean library (theorems are
re-checked by the kernel), audits axioms, rebuilds /repo with hooks, runs the correspondence between
the executable Lean model and the real library, runs the property monitors, writes
evidence/<property>.json and exits 0 / 1 (VIOLATION line) as MANIFEST.json describes."""
import argparse
import importlib
import json
import os
import sys

sys.path.insert(0, os.path.dirname(os.path.abspath(__file__)))
from vlib.common import Ctx  # noqa: E402


def main():
    ap = argparse.ArgumentParser()
    ap.add_argument("prop")
    ap.add_argument("--tier", default=os.environ.get("VERIF_TIER", "quick"), choices=["quick", "thorough"])
    ap.add_argument("--replay", default=None)
    a = ap.parse_args()
    seed = int(os.environ.get("VERIF_SEED", "1"))
    tier = a.tier
    rep = None
    if a.replay:
        # a replay file records the seed and tier of the run that produced it: every random choice of a check derives from
        # that one seed, so re-running the check with it re-creates the failing input; the outcome for the recorded signature
        # is reported (exit 1 = reproduced on the current tree)
        with open(a.replay) as f:
            rep = json.load(f)
        seed = int(rep.get("seed", seed))
        tier = rep.get("tier", tier)
    ctx = Ctx(a.prop, tier, seed)
    ctx.replay = rep
    try:
        mod = importlib.import_module("vlib.props." + a.prop)
    except ImportError as e:
        print("no check for property %s (%s)" % (a.prop, e), file=sys.stderr)
        return 2
    if rep is not None and hasattr(mod, "replay"):
        return mod.replay(ctx)
    return mod.run(ctx)


if __name__ == "__main__":
    sys.exit(main())
