#!/usr/bin/env python3
"""Regenerate NloptModel/Generated/SobolTables.lean from <repo>/src/util/soboldata.h.

usage: translate_sobol.py <repo-root> <output.lean>

The header is parsed textually (comments stripped, then regular expressions):
  #define MAXDIM <n>
  #define MAXDEG <n>
  static const uint32_t sobol_a[MAXDIM - 1] = { ... };
  static const uint32_t sobol_minit[MAXDEG + 1][MAXDIM - 1] = { {...}, ... };
Any missing pattern or inconsistent count is fatal (exit code 2).
The output is a pure function of the header text (no timestamps, no paths):
an unchanged header gives a byte-identical file.
"""
import hashlib
import re
import sys

CHUNK = 50


def die(msg):
    sys.stderr.write("translate_sobol.py: FATAL: " + msg + "\n")
    sys.exit(2)


def parse_ints(body, what):
    toks = [t.strip() for t in body.split(",")]
    if toks and toks[-1] == "":
        toks.pop()  # trailing comma
    out = []
    for t in toks:
        m = re.fullmatch(r"(0[xX][0-9a-fA-F]+|[0-9]+)[uUlL]*", t)
        if not m:
            die("%s: cannot parse initializer token %r" % (what, t))
        s = m.group(1)
        if len(s) > 1 and s[0] == "0" and s[1] not in "xX":
            die("%s: octal literal %r not supported" % (what, t))
        v = int(s, 0)
        if v >= 2 ** 32:
            die("%s: value %d does not fit uint32_t" % (what, v))
        out.append(v)
    return out


def main():
    if len(sys.argv) != 3:
        sys.stderr.write(__doc__)
        sys.exit(2)
    repo, outpath = sys.argv[1], sys.argv[2]
    hdr = repo.rstrip("/") + "/src/util/soboldata.h"
    try:
        with open(hdr, "r", encoding="utf-8", errors="strict") as f:
            raw = f.read()
    except OSError as e:
        die("cannot read %s: %s" % (hdr, e))
    sha = hashlib.sha256(raw.encode("utf-8")).hexdigest()
    unterminated = raw.count("/*") != raw.count("*/")
    if unterminated:
        die("unbalanced /* */ comments in header")
    txt = re.sub(r"/\*.*?\*/", " ", raw, flags=re.S)
    txt = re.sub(r"//[^\n]*", " ", txt)

    def define(name):
        ms = re.findall(r"^[ \t]*#[ \t]*define[ \t]+" + name + r"[ \t]+([0-9]+)[ \t]*$", txt, flags=re.M)
        if len(ms) != 1:
            die("expected exactly one '#define %s <int>', found %d" % (name, len(ms)))
        return int(ms[0])

    maxdim = define("MAXDIM")
    maxdeg = define("MAXDEG")

    ma = re.findall(
        r"static\s+const\s+uint32_t\s+sobol_a\s*\[\s*MAXDIM\s*-\s*1\s*\]\s*=\s*\{([^{}]*)\}\s*;", txt)
    if len(ma) != 1:
        die("pattern 'static const uint32_t sobol_a[MAXDIM - 1] = {...};' found %d times" % len(ma))
    a = parse_ints(ma[0], "sobol_a")

    mm = re.findall(
        r"static\s+const\s+uint32_t\s+sobol_minit\s*\[\s*MAXDEG\s*\+\s*1\s*\]\s*\[\s*MAXDIM\s*-\s*1\s*\]"
        r"\s*=\s*\{((?:\s*\{[^{}]*\}\s*,?)*)\s*\}\s*;", txt)
    if len(mm) != 1:
        die("pattern 'static const uint32_t sobol_minit[MAXDEG + 1][MAXDIM - 1] = {{...},...};' "
            "found %d times" % len(mm))
    rows_txt = re.findall(r"\{([^{}]*)\}", mm[0])
    rows = [parse_ints(r, "sobol_minit[%d]" % k) for k, r in enumerate(rows_txt)]

    if maxdim < 2:
        die("MAXDIM = %d too small" % maxdim)
    if len(a) != maxdim - 1:
        die("sobol_a has %d initializers, MAXDIM - 1 = %d" % (len(a), maxdim - 1))
    if len(rows) != maxdeg + 1:
        die("sobol_minit has %d rows, MAXDEG + 1 = %d" % (len(rows), maxdeg + 1))
    for k, r in enumerate(rows):
        if len(r) != maxdim - 1:
            die("sobol_minit[%d] has %d initializers, MAXDIM - 1 = %d" % (k, len(r), maxdim - 1))

    nent = maxdim - 1
    nchunks = (nent + CHUNK - 1) // CHUNK
    L = []
    w = L.append
    w("/-")
    w("  GENERATED FILE -- do not edit.  Regenerate with")
    w("    translate_sobol.py <repo-root> NloptModel/Generated/SobolTables.lean")
    w("  Source: src/util/soboldata.h  (sha256 %s)" % sha)
    w("  MAXDIM = %d, MAXDEG = %d, %d table columns in %d chunks of <= %d." % (maxdim, maxdeg, nent, nchunks, CHUNK))
    w("")
    w("  One record per table column t = 0 .. MAXDIM-2 (the C code uses column t = i-1 for")
    w("  dimension i >= 1):   (sobol_a[t], [sobol_minit[0][t], ..., sobol_minit[MAXDEG][t]]).")
    w("  Core Lean only (linked into the executable).  The table is split into chunks so")
    w("  that no single definition is a huge literal.")
    w("-/")
    w("")
    w("namespace Nlopt.Sobol.Tables")
    w("")
    w("/-- `MAXDIM` of soboldata.h. -/")
    w("def maxdim : Nat := %d" % maxdim)
    w("")
    w("/-- `MAXDEG` of soboldata.h (sobol_minit has `MAXDEG + 1` rows). -/")
    w("def maxdeg : Nat := %d" % maxdeg)
    w("")
    for c in range(nchunks):
        lo, hi = c * CHUNK, min(nent, (c + 1) * CHUNK)
        w("/-- table columns %d .. %d -/" % (lo, hi - 1))
        w("def chunk%d : List (Nat × List Nat) := [" % c)
        for t in range(lo, hi):
            rec = "  (%d, [%s])" % (a[t], ", ".join(str(rows[j][t]) for j in range(maxdeg + 1)))
            w(rec + ("," if t + 1 < hi else ""))
        w("]")
        w("")
    w("/-- All chunks, in column order. -/")
    w("def sobolChunks : List (List (Nat × List Nat)) := [")
    names = ["chunk%d" % c for c in range(nchunks)]
    for k in range(0, nchunks, 8):
        w("  " + ", ".join(names[k:k + 8]) + ("," if k + 8 < nchunks else ""))
    w("]")
    w("")
    w("/-- The whole table: column `t` is `sobolTable[t]`. -/")
    w("def sobolTable : List (Nat × List Nat) := sobolChunks.flatten")
    w("")
    w("/-- Column `t` (`(0, [])` outside the table; the C code never reads there). -/")
    w("def sobolEntry (t : Nat) : Nat × List Nat := sobolTable.getD t (0, [])")
    w("")
    w("/-- `sobol_a[t]` -/")
    w("def sobolA (t : Nat) : Nat := (sobolEntry t).1")
    w("")
    w("/-- `sobol_minit[j][t]` -/")
    w("def sobolMinit (j t : Nat) : Nat := (sobolEntry t).2.getD j 0")
    w("")
    w("end Nlopt.Sobol.Tables")
    out = "\n".join(L) + "\n"
    with open(outpath, "w", encoding="utf-8", newline="\n") as f:
        f.write(out)
    sys.stderr.write("translate_sobol.py: wrote %s (%d columns, %d chunks)\n" % (outpath, nent, nchunks))


if __name__ == "__main__":
    main()
