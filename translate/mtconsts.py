#!/usr/bin/env python3
"""
translate_mtconsts.py -- regenerate NloptModel/Generated/MTConsts.lean from
/repo/src/util/mt19937ar.c.

Dumb by design: every constant is extracted by one regular expression from the C text (comments
stripped first); no semantics, no defaults.  If any pattern does not match exactly once the
script prints which one and exits with status 2 (never guesses).

usage: translate_mtconsts.py [C_SOURCE] [OUT_LEAN]
       translate_mtconsts.py --check [C_SOURCE] [OUT_LEAN]   (exit 1 if OUT_LEAN differs)
"""
import re
import sys

DEFAULT_SRC = "/repo/src/util/mt19937ar.c"
DEFAULT_OUT = "/verif/lean/NloptModel/Generated/MTConsts.lean"


def die(msg):
    sys.stderr.write("translate_mtconsts: MISSING-PATTERN: %s\n" % msg)
    sys.exit(2)


def strip_comments(text):
    return re.sub(r"/\*.*?\*/", " ", text, flags=re.S)


def function_body(text, header_regex, what):
    """text of the brace-balanced body following the (unique) match of header_regex"""
    ms = list(re.finditer(header_regex, text))
    if len(ms) != 1:
        die("%s: header matched %d times (expected 1): %s" % (what, len(ms), header_regex))
    i = text.find("{", ms[0].end() - 1)
    if i < 0:
        die("%s: no opening brace" % what)
    depth = 0
    for j in range(i, len(text)):
        if text[j] == "{":
            depth += 1
        elif text[j] == "}":
            depth -= 1
            if depth == 0:
                return text[i:j + 1]
    die("%s: unbalanced braces" % what)


def one(text, regex, what):
    ms = re.findall(regex, text)
    if len(ms) != 1:
        die("%s: matched %d times (expected 1): %s" % (what, len(ms), regex))
    return ms[0]


def num(tok):
    tok = tok.rstrip("uUlL")
    if tok.endswith(".0"):
        tok = tok[:-2]
    return int(tok, 0)


def main(argv):
    check = False
    if argv and argv[0] == "--check":
        check = True
        argv = argv[1:]
    src = argv[0] if len(argv) > 0 else DEFAULT_SRC
    out = argv[1] if len(argv) > 1 else DEFAULT_OUT
    try:
        raw = open(src).read()
    except OSError as e:
        die("cannot read %s: %s" % (src, e))
    # the `#if 0 ... #endif` block ("not used in NLopt") is dead code: drop it
    nodead, nsub = re.subn(r"#if\s+0\b.*?#endif", " ", strip_comments(raw), flags=re.S)
    if nsub != 1:
        die("expected exactly one `#if 0` block, found %d" % nsub)
    text = nodead

    NUM = r"(0[xX][0-9a-fA-F]+|[0-9]+)[uUlL]*"
    c = {}
    # period parameters
    c["N"] = num(one(text, r"#\s*define\s+N\s+" + NUM + r"\s*\n", "N"))
    c["M"] = num(one(text, r"#\s*define\s+M\s+" + NUM + r"\s*\n", "M"))
    c["MATRIX_A"] = num(one(text, r"#\s*define\s+MATRIX_A\s+" + NUM, "MATRIX_A"))
    c["UPPER_MASK"] = num(one(text, r"#\s*define\s+UPPER_MASK\s+" + NUM, "UPPER_MASK"))
    c["LOWER_MASK"] = num(one(text, r"#\s*define\s+LOWER_MASK\s+" + NUM, "LOWER_MASK"))
    # the state declaration and the "uninitialised" sentinel
    one(text, r"uint32_t\s+mt\s*\[\s*N\s*\]\s*;", "state array mt[N]")
    c["MTI_UNINIT_OFFSET"] = num(one(text, r"int\s+mti\s*=\s*N\s*\+\s*" + NUM + r"\s*;",
                                     "mti initialiser N+1"))

    # init_genrand
    init = function_body(text, r"void\s+nlopt_init_genrand\s*\(\s*unsigned\s+long\s+s\s*\)\s*\{",
                         "nlopt_init_genrand")
    c["SEED_MASK"] = num(one(init, r"mt\s*\[\s*0\s*\]\s*=\s*s\s*&\s*" + NUM + r"\s*;",
                             "mt[0] = s & mask"))
    m = one(init,
            r"mt\s*\[\s*mti\s*\]\s*=\s*\(\s*" + NUM +
            r"\s*\*\s*\(\s*mt\s*\[\s*mti\s*-\s*1\s*\]\s*\^\s*\(\s*mt\s*\[\s*mti\s*-\s*1\s*\]\s*>>\s*"
            + NUM + r"\s*\)\s*\)\s*\+\s*mti\s*\)\s*;",
            "init recurrence mt[mti] = (MULT * (mt[mti-1] ^ (mt[mti-1] >> SHIFT)) + mti)")
    c["INIT_MULT"] = num(m[0])
    c["INIT_SHIFT"] = num(m[1])
    one(init, r"for\s*\(\s*mti\s*=\s*1\s*;\s*mti\s*<\s*N\s*;\s*mti\s*\+\+\s*\)", "init loop header")

    # genrand_int32
    gen = function_body(text, r"static\s+uint32_t\s+nlopt_genrand_int32\s*\(\s*void\s*\)\s*\{",
                        "nlopt_genrand_int32")
    c["DEFAULT_SEED"] = num(one(gen, r"nlopt_init_genrand\s*\(\s*" + NUM + r"\s*\)\s*;",
                                "default seed"))
    one(gen, r"mag01\s*\[\s*2\s*\]\s*=\s*\{\s*0x0[uUlL]*\s*,\s*MATRIX_A\s*\}", "mag01 = {0, MATRIX_A}")
    one(gen, r"if\s*\(\s*mti\s*>=\s*N\s*\)", "regeneration guard mti >= N")
    one(gen, r"for\s*\(\s*kk\s*=\s*0\s*;\s*kk\s*<\s*N\s*-\s*M\s*;\s*kk\s*\+\+\s*\)", "loop 1 header")
    one(gen, r"for\s*\(\s*;\s*kk\s*<\s*N\s*-\s*1\s*;\s*kk\s*\+\+\s*\)", "loop 2 header")
    one(gen, r"mt\s*\[\s*kk\s*\]\s*=\s*mt\s*\[\s*kk\s*\+\s*M\s*\]\s*\^\s*\(\s*y\s*>>\s*1\s*\)\s*\^\s*"
             r"mag01\s*\[\s*y\s*&\s*0x1[uUlL]*\s*\]\s*;", "loop 1 body")
    one(gen, r"mt\s*\[\s*kk\s*\]\s*=\s*mt\s*\[\s*kk\s*\+\s*\(\s*M\s*-\s*N\s*\)\s*\]\s*\^\s*\(\s*y\s*>>\s*1\s*\)"
             r"\s*\^\s*mag01\s*\[\s*y\s*&\s*0x1[uUlL]*\s*\]\s*;", "loop 2 body")
    one(gen, r"y\s*=\s*\(\s*mt\s*\[\s*N\s*-\s*1\s*\]\s*&\s*UPPER_MASK\s*\)\s*\|\s*\(\s*mt\s*\[\s*0\s*\]\s*&\s*"
             r"LOWER_MASK\s*\)\s*;", "last word y")
    one(gen, r"mt\s*\[\s*N\s*-\s*1\s*\]\s*=\s*mt\s*\[\s*M\s*-\s*1\s*\]\s*\^\s*\(\s*y\s*>>\s*1\s*\)\s*\^\s*"
             r"mag01\s*\[\s*y\s*&\s*0x1[uUlL]*\s*\]\s*;", "last word update")
    sh = re.findall(r"y\s*\^=\s*\(\s*y\s*>>\s*" + NUM + r"\s*\)\s*;", gen)
    if len(sh) != 2:
        die("tempering: expected two `y ^= (y >> s);` lines, found %d" % len(sh))
    c["TEMPER_U"], c["TEMPER_L"] = num(sh[0]), num(sh[1])
    m = re.findall(r"y\s*\^=\s*\(\s*y\s*<<\s*" + NUM + r"\s*\)\s*&\s*" + NUM + r"\s*;", gen)
    if len(m) != 2:
        die("tempering: expected two `y ^= (y << s) & mask;` lines, found %d" % len(m))
    c["TEMPER_S"], c["TEMPER_B"] = num(m[0][0]), num(m[0][1])
    c["TEMPER_T"], c["TEMPER_C"] = num(m[1][0]), num(m[1][1])
    # order of the four tempering statements: >>, <<&, <<&, >>
    one(gen, r"y\s*\^=\s*\(\s*y\s*>>[^;]*;\s*y\s*\^=\s*\(\s*y\s*<<[^;]*;\s*y\s*\^=\s*\(\s*y\s*<<[^;]*;"
             r"\s*y\s*\^=\s*\(\s*y\s*>>[^;]*;\s*return\s+y\s*;", "tempering statement order")

    # res53
    res = function_body(text, r"static\s+double\s+nlopt_genrand_res53\s*\(\s*void\s*\)\s*\{",
                        "nlopt_genrand_res53")
    m = one(res, r"uint32_t\s+a\s*=\s*nlopt_genrand_int32\s*\(\s*\)\s*>>\s*" + NUM +
            r"\s*,\s*b\s*=\s*nlopt_genrand_int32\s*\(\s*\)\s*>>\s*" + NUM + r"\s*;", "res53 shifts")
    c["RES53_SHIFT_A"], c["RES53_SHIFT_B"] = num(m[0]), num(m[1])
    m = one(res, r"return\s*\(\s*a\s*\*\s*([0-9]+)\.0\s*\+\s*b\s*\)\s*\*\s*\(\s*1\.0\s*/\s*([0-9]+)\.0\s*\)\s*;",
            "res53 scale")
    c["RES53_MUL"], c["RES53_DEN"] = int(m[0]), int(m[1])

    # the three samplers: only their shapes are checked (nothing to extract)
    one(text, r"return\s*\(\s*a\s*\+\s*\(\s*b\s*-\s*a\s*\)\s*\*\s*nlopt_genrand_res53\s*\(\s*\)\s*\)\s*;",
        "urand shape a + (b - a) * res53()")
    one(text, r"return\s*\(\s*nlopt_genrand_int32\s*\(\s*\)\s*%\s*n\s*\)\s*;", "iurand shape int32() % n")
    one(text, r"while\s*\(\s*s\s*>=\s*1\.0\s*\)\s*;", "nrand loop guard s >= 1.0")
    one(text, r"s\s*=\s*v1\s*\*\s*v1\s*\+\s*v2\s*\*\s*v2\s*;", "nrand s = v1*v1 + v2*v2")
    one(text, r"return\s+mean\s*\+\s*v1\s*\*\s*sqrt\s*\(\s*-\s*2\s*\*\s*log\s*\(\s*s\s*\)\s*/\s*s\s*\)\s*\*\s*stddev\s*;",
        "nrand result expression")
    if len(re.findall(r"nlopt_urand\s*\(\s*-\s*1\s*,\s*1\s*\)", text)) != 2:
        die("nrand: expected two nlopt_urand(-1, 1) draws")

    u32 = lambda k: "def %s : UInt32 := 0x%08x" % (k, c[k])
    nat = lambda k: "def %s : Nat := %d" % (k, c[k])
    lines = [
        "/- GENERATED by translate_mtconsts.py from src/util/mt19937ar.c -- do not edit.",
        "   Only `def`s: period parameters, masks, tempering parameters, seeding constants and the",
        "   `genrand_res53` constants, exactly as they are spelled in the C source. -/",
        "namespace Nlopt.MT",
        "",
        nat("N"), nat("M"),
        u32("MATRIX_A"), u32("UPPER_MASK"), u32("LOWER_MASK"),
        nat("MTI_UNINIT_OFFSET"),
        nat("SEED_MASK"),
        u32("INIT_MULT"), nat("INIT_SHIFT"),
        nat("DEFAULT_SEED"),
        nat("TEMPER_U"), nat("TEMPER_S"), u32("TEMPER_B"),
        nat("TEMPER_T"), u32("TEMPER_C"), nat("TEMPER_L"),
        nat("RES53_SHIFT_A"), nat("RES53_SHIFT_B"), nat("RES53_MUL"), nat("RES53_DEN"),
        "",
        "end Nlopt.MT",
        "",
    ]
    for k in ("MATRIX_A", "UPPER_MASK", "LOWER_MASK", "INIT_MULT", "TEMPER_B", "TEMPER_C"):
        if not (0 <= c[k] < 2 ** 32):
            die("%s = %d does not fit 32 bits" % (k, c[k]))
    new = "\n".join(lines)
    print("translate_mtconsts: extracted " + ", ".join("%s=%s" % (k, c[k]) for k in c))
    if check:
        try:
            old = open(out).read()
        except OSError:
            old = None
        if old != new:
            sys.stderr.write("translate_mtconsts: %s is out of date\n" % out)
            sys.exit(1)
        print("translate_mtconsts: %s is up to date" % out)
        return
    with open(out, "w") as f:
        f.write(new)
    print("translate_mtconsts: wrote %s" % out)


if __name__ == "__main__":
    main(sys.argv[1:])
