import json,sys
pid=sys.argv[1]; tag=sys.argv[2] if len(sys.argv)>2 else pid
for l in open('/verif/properties.jsonl'):
    d=json.loads(l)
    if d['id']==pid: break
print(f"""You are a test engineer producing a *seeded defect* for the open-source library stevengj/nlopt (C library of nonlinear optimization algorithms). Work ONLY in your own scratch git worktree: run `git -C /repo worktree add --detach /tmp/mut_{tag} HEAD` and do everything inside /tmp/mut_{tag} (never edit /repo itself, never read or write anything under /verif, never commit). Every shell command prints a harmless "WARNING conda..." line first; ignore it. There is no network.

Build and test like this (takes ~30 s): `cmake -G Ninja -S /tmp/mut_{tag} -B /tmp/mut_{tag}/_b -DCMAKE_BUILD_TYPE=RelWithDebInfo -DNLOPT_PYTHON=OFF -DNLOPT_OCTAVE=OFF -DNLOPT_MATLAB=OFF -DNLOPT_GUILE=OFF -DNLOPT_SWIG=OFF -DNLOPT_JAVA=OFF -DNLOPT_TESTS=ON > /dev/null && cmake --build /tmp/mut_{tag}/_b -j8 > /dev/null && ctest --test-dir /tmp/mut_{tag}/_b -j8 2>&1 | tail -3` — all 77 tests must pass before AND after your change. (Ignore src/util/nlopt-verif.h and the `NLOPT_VERIF` macros: inert instrumentation.)

The property you must break:

  {d['id']} — {d['title']}
  Statement: {d['statement']}
  Quantifier: {d['quantifier']['text']}
  Code anchors: files {', '.join(d['anchors']['files'])}; mechanisms: {'; '.join(m.get('name','')+' ('+m.get('where','')+')' for m in d['anchors'].get('mechanism',[]))}

Your job: make ONE small, realistic source change to the library (the kind of slip a maintainer could plausibly commit: an off-by-one, a swapped argument, a condition that is slightly too weak or too strong, a missing update on one path, a reordering, a wrong variable, a dropped negation on a rare branch, …) such that
  1. the library still compiles without new warnings that would give it away, and all 77 existing tests still pass;
  2. the property above is now violated for SOME inputs / histories, but NOT by ordinary use: it must need something specific to manifest — an unusual input, a particular multi-step sequence of API calls, a failure at a particular point, a rarely taken branch, or two places that each look fine alone. A change that makes ordinary use fail at once is not wanted;
  3. you can demonstrate it: write a small stand-alone C program (demo.c, linking against the built library: `gcc demo.c -I/tmp/mut_{tag}/_b -I/tmp/mut_{tag}/src/api -L/tmp/mut_{tag}/_b -lnlopt -lm -Wl,-rpath,/tmp/mut_{tag}/_b`; you may also include internal headers with -I/tmp/mut_{tag}/src/util if the property is about an internal utility) that exits 0 / prints PASS on the unmodified source and exits nonzero / prints FAIL with your change. Verify both: build the unmodified tree first and run the demo (PASS), then apply the change, rebuild, run tests (77 pass) and the demo (FAIL).
Prefer changes in the files named by the anchors. Produce ONE change (if you have time, a second, different one as patch2.diff/demo2.c is welcome).

Deliver, in /tmp/mut_{tag}_out/ : `patch.diff` (output of `git -C /tmp/mut_{tag} diff` — source changes only, no build dir), `demo.c`, and `meta.json` with keys: property, summary (what was changed), needs (what specific input/sequence/fault is needed for it to manifest), build_cmd, demo_cmd, demo_output_unmodified, demo_output_modified, tests ("77/77 pass"). Finally remove your worktree: `git -C /repo worktree remove --force /tmp/mut_{tag}` (keep /tmp/mut_{tag}_out). Reply with the contents of meta.json and the patch.""")
