#!/usr/bin/env python3
"""replaces the generated tables of DESIGN.md section 8 (between the BEGIN/END markers) with the current output of gen_tables.py"""
import os, subprocess
V = os.path.dirname(os.path.dirname(os.path.abspath(__file__)))
p = os.path.join(V, "DESIGN.md")
s = open(p).read()
t = subprocess.run(["python3", os.path.join(V, "tools", "gen_tables.py")], stdout=subprocess.PIPE).stdout.decode()
a = s.index("<!-- BEGIN GENERATED TABLES")
b = s.index("<!-- END GENERATED TABLES -->")
s = s[:a] + "<!-- BEGIN GENERATED TABLES (tools/gen_tables.py) -->\n" + t + "\n" + s[b:]
open(p, "w").write(s)
print("DESIGN.md tables updated")
