#!/usr/bin/env python3
"""seed_eval.py <out_dir_of_agent> <seed id> <property> [more properties...] [--patch patch2.diff --demo demo2.c]

Confirms a seeded defect in a scratch worktree (clean: demo passes; patched: compiles, 77 tests pass, demo fails), then
applies it to /repo, runs the quick checks of the given properties, undoes it, and stores everything under
/verif/seeded/<seed id>/ (patch.diff, demo.c, meta.json)."""
import json
import os
import shutil
import subprocess
import sys

VERIF = os.path.dirname(os.path.dirname(os.path.abspath(__file__)))
REPO = "/repo"
CM = ["-DCMAKE_BUILD_TYPE=RelWithDebInfo", "-DNLOPT_PYTHON=OFF", "-DNLOPT_OCTAVE=OFF", "-DNLOPT_MATLAB=OFF", "-DNLOPT_GUILE=OFF",
      "-DNLOPT_SWIG=OFF", "-DNLOPT_JAVA=OFF", "-DNLOPT_TESTS=ON"]


def sh(cmd, cwd=None, timeout=3000):
    p = subprocess.run(cmd, shell=isinstance(cmd, str), cwd=cwd, stdout=subprocess.PIPE, stderr=subprocess.STDOUT, timeout=timeout)
    return p.returncode, "\n".join(l for l in p.stdout.decode("utf-8", "replace").split("\n") if "conda.cli" not in l)


def build(wt):
    rc, out = sh(["cmake", "-G", "Ninja", "-S", wt, "-B", wt + "/_b"] + CM)
    if rc:
        return False, out
    rc, out = sh(["cmake", "--build", wt + "/_b", "-j16"])
    return rc == 0, out[-1500:]


def demo(wt, demo_src, extra_inc=()):
    exe = wt + "/_b/seed_demo"
    cxx = demo_src.endswith((".cc", ".cpp"))
    cmd = ["g++" if cxx else "gcc", demo_src, "-o", exe, "-I" + wt + "/_b", "-I" + wt + "/src/api", "-I" + wt + "/src/util"] + \
          ["-I" + wt + "/src/algs/" + d for d in os.listdir(wt + "/src/algs")] + \
          ["-L" + wt + "/_b", "-lnlopt", "-lm", "-lpthread", "-Wl,-rpath," + wt + "/_b"]
    rc, out = sh(cmd)
    if rc:
        return None, "demo does not compile: " + out[-800:]
    try:
        rc, out = sh([exe], timeout=300)
    except subprocess.TimeoutExpired:
        return 124, "timeout"
    return rc, out[-600:]


def main():
    a = sys.argv[1:]
    patchname, demoname = "patch.diff", "demo.c"
    if "--patch" in a:
        i = a.index("--patch"); patchname = a[i + 1]; del a[i:i + 2]
    if "--demo" in a:
        i = a.index("--demo"); demoname = a[i + 1]; del a[i:i + 2]
    src, sid, props = a[0], a[1], a[2:]
    patch = os.path.join(src, patchname)
    demo_src = os.path.join(src, demoname)
    if not os.path.exists(demo_src):
        cands = [f for f in os.listdir(src) if f.startswith("demo") and f.endswith((".c", ".cc", ".cpp"))]
        demo_src = os.path.join(src, cands[0])
    wt = "/tmp/seedwt_%s" % sid
    sh(["git", "-C", REPO, "worktree", "remove", "--force", wt])
    shutil.rmtree(wt, ignore_errors=True)
    rc, out = sh(["git", "-C", REPO, "worktree", "add", "--detach", wt, "HEAD"])
    res = {"seed": sid, "properties": props}
    try:
        ok, out = build(wt)
        res["clean_build"] = ok
        rc0, o0 = demo(wt, demo_src)
        res["demo_clean"] = {"rc": rc0, "out": o0[-300:]}
        rc, out = sh(["git", "-C", wt, "apply", patch])
        res["patch_applies"] = rc == 0
        if rc:
            res["apply_error"] = out[-400:]
        ok, out = build(wt)
        res["patched_build"] = ok
        rc, out = sh(["ctest", "--test-dir", wt + "/_b", "-j8", "--timeout", "900"])
        res["tests"] = out.strip().split("\n")[-3:] if out else []
        res["tests_pass"] = "100% tests passed" in out
        rc1, o1 = demo(wt, demo_src)
        res["demo_patched"] = {"rc": rc1, "out": o1[-300:]}
        res["confirmed"] = bool(res["clean_build"] and res["patch_applies"] and res["patched_build"] and res["tests_pass"]
                                and rc0 == 0 and rc1 not in (0, None))
    finally:
        sh(["git", "-C", REPO, "worktree", "remove", "--force", wt])
        shutil.rmtree(wt, ignore_errors=True)
    # run the checks against the patched /repo
    res["checks"] = {}
    rc, out = sh(["git", "-C", REPO, "status", "--porcelain", "--untracked-files=no"])
    if out.strip():
        print("refusing: /repo has uncommitted changes"); return 2
    rc, out = sh(["git", "-C", REPO, "apply", patch])
    try:
        if rc == 0:
            for p in props:
                rc, out = sh([os.path.join(VERIF, "check.py"), p, "--tier", "quick"], cwd=VERIF)
                viol = [l for l in out.split("\n") if l.startswith("VIOLATION")]
                last = out.strip().split("\n")[-1] if out.strip() else ""
                res["checks"][p] = {"exit": rc, "violations": viol[:4], "summary": last[:200],
                                    "what": [l.split("violation:", 1)[1].strip()[:200] for l in out.split("\n") if "violation:" in l][:3] +
                                            [l.split("broken:", 1)[1].strip()[:300] for l in out.split("\n") if "broken:" in l][:2]}
    finally:
        sh(["git", "-C", REPO, "checkout", "--", "."])
        sh(["python3", os.path.join(VERIF, "tools", "regen.py")])     # Generated/*.lean back to the unpatched tree
    # evidence files were rewritten by the patched runs: restore them by re-running on the clean tree later (caller)
    dst = os.path.join(VERIF, "seeded", sid)
    os.makedirs(dst, exist_ok=True)
    shutil.copy(patch, os.path.join(dst, "patch.diff"))
    shutil.copy(demo_src, os.path.join(dst, os.path.basename(demo_src) if not demoname.startswith("demo2") else "demo.c"))
    meta = {}
    mp = os.path.join(src, "meta.json")
    if os.path.exists(mp):
        try:
            meta = json.load(open(mp))
        except Exception:
            meta = {"raw": open(mp).read()[:2000]}
    if patchname != "patch.diff":
        sk = [k for k in meta if k.startswith("second")]
        if sk and isinstance(meta[sk[0]], dict):
            meta = dict(meta[sk[0]], property=meta.get("property"))
    meta["evaluation"] = res
    meta["detected_by"] = [p for p, r in res["checks"].items() if r["exit"] == 1]
    json.dump(meta, open(os.path.join(dst, "meta.json"), "w"), indent=1)
    print(json.dumps({"seed": sid, "confirmed": res.get("confirmed"), "detected_by": meta["detected_by"],
                      "checks": {p: (r["exit"], r["what"][:2]) for p, r in res["checks"].items()}}, indent=1)[:1800])


if __name__ == "__main__":
    sys.exit(main())
