#!/usr/bin/env python3
"""prints the markdown tables of DESIGN.md section 8 (seeded defects, fixes, known findings) from the files they summarise"""
import glob, json, os, subprocess
V = os.path.dirname(os.path.dirname(os.path.abspath(__file__)))
print("#### Seeded defects (from /verif/seeded/*/meta.json)\n")
print("| seed | what was changed (agent's summary, shortened) | detected by |")
print("|---|---|---|")
for d in sorted(glob.glob(os.path.join(V, "seeded", "*"))):
    m = json.load(open(os.path.join(d, "meta.json")))
    s = (m.get("summary") or m.get("change") or "").replace("|", "/").replace("\n", " ")
    ev = m.get("evaluation", {})
    det = ", ".join(m.get("detected_by", [])) or "—"
    print("| %s | %s | %s%s |" % (os.path.basename(d), s[:230], det, "" if ev.get("confirmed") else " (not confirmed)"))
print("\n#### Repairs in /repo (`fix:` commits)\n")
print("| commit | property | what failed |")
print("|---|---|---|")
for l in open(os.path.join(V, "known_findings.jsonl")):
    e = json.loads(l)
    if e["status"] == "fixed":
        t = e["text"].split(" ", 3)[3] if e["text"].startswith("fixed:") else e["text"]
        print("| %s | %s | %s |" % (e["commit"], e["property"], t.replace("|", "/")[:300]))
print("\n#### Known findings (recorded, not repaired)\n")
print("| property | signature | what fails |")
print("|---|---|---|")
for l in open(os.path.join(V, "known_findings.jsonl")):
    e = json.loads(l)
    if e["status"] == "known":
        print("| %s | %s | %s |" % (e["property"], json.dumps(e["signature"]).replace("|", "/"), e["what"].replace("|", "/")[:260]))
