#!/usr/bin/env python3
"""seed_regress.py [seed-id-prefix ...]: re-applies every stored seeded defect (/verif/seeded/*/patch.diff) to /repo, runs the quick
check of the properties that detected it when it was evaluated, undoes it, and prints which seeds are still detected.
Never run anything else against /repo while this is running."""
import json, os, subprocess, sys, glob
V = os.path.dirname(os.path.dirname(os.path.abspath(__file__)))
R = "/repo"

def sh(cmd, cwd=None):
    p = subprocess.run(cmd, cwd=cwd, stdout=subprocess.PIPE, stderr=subprocess.STDOUT)
    return p.returncode, p.stdout.decode("utf-8", "replace")

def main():
    pref = sys.argv[1:]
    rc, out = sh(["git", "-C", R, "status", "--porcelain", "--untracked-files=no"])
    if out.strip():
        print("refusing: /repo has uncommitted changes"); return 2
    res = {}
    for d in sorted(glob.glob(os.path.join(V, "seeded", "*"))):
        sid = os.path.basename(d)
        if pref and not any(sid.startswith(p) for p in pref):
            continue
        meta = json.load(open(os.path.join(d, "meta.json")))
        props = meta.get("detected_by") or meta.get("evaluation", {}).get("properties", [])[:1]
        rc, out = sh(["git", "-C", R, "apply", os.path.join(d, "patch.diff")])
        if rc:
            res[sid] = "PATCH DOES NOT APPLY"; print(sid, res[sid]); continue
        try:
            det = []
            for p in props[:2]:
                rc, out = sh([os.path.join(V, "check.py"), p, "--tier", "quick"], cwd=V)
                if rc == 1:
                    det.append(p)
            res[sid] = "detected by " + ",".join(det) if det else "NOT DETECTED (was: %s)" % ",".join(props)
        finally:
            sh(["git", "-C", R, "checkout", "--", "."])
            sh(["python3", os.path.join(V, "tools", "regen.py")])       # Generated/*.lean back to the unpatched tree
        print(sid, res[sid]); sys.stdout.flush()
    bad = [s for s, v in res.items() if not v.startswith("detected")]
    print("%d seeds, %d not detected: %s" % (len(res), len(bad), bad))
    return 1 if bad else 0

if __name__ == "__main__":
    sys.exit(main())
