#!/usr/bin/env python3
"""Writes /verif/MANIFEST.json from the table below (kept here so that the manifest stays valid and
consistent while checks are added)."""
import json
import os
import subprocess

VERIF = os.path.dirname(os.path.dirname(os.path.abspath(__file__)))

TB = ("Trusted: Lean 4.33 kernel (axioms propext, Classical.choice, Quot.sound only; no native_decide, bv_decide, "
      "sorry or own axioms — audited on every run); the translators in /verif/translate; the correspondence harness "
      "in /verif/harness (differential runs of the compiled Lean model driver against the library rebuilt from /repo "
      "with -DNLOPT_VERIF) incl. its canonicalisation (doubles as bit patterns, NaN payloads ignored, block/data "
      "pointers as ledger ids); the C compiler and libm. ")

CHECKS = {
    "C19": dict(
        category="proof",
        text="Lean 4 proof over a functional zipper model that mirrors redblack.c step for step: the red-black invariant "
             "(order, root black, no red-red, equal black heights) is preserved by insert, remove and resort for every tree "
             "and key; in-order contents equal the sorted-multiset spec after EVERY finite operation history (induction); "
             "min/max/succ/pred/find/find_le/find_lt/find_gt are characterised against the sorted list; count exact; "
             "height <= 2*log2(N+1). Tie: every run replays exhaustive short and long random histories on the C tree and "
             "on the model and compares shape dumps (colour, key id, value), counts, nlopt_rb_tree_check and all query "
             "answers after each operation.",
        design="3/C19",
        note=TB + "Modelled, not verified: node allocation (malloc failure), rb_tree_destroy, shift_keys; keys are "
             "compared as integers through the comparator.",
        technique="Lean 4 proof (invariant by induction over zipper steps; refinement to sorted list) + shape-level differential correspondence"),
    "C20": dict(
        category="proof",
        text="Lean 4 proofs: (MT) the in-place three-loop block generator of mt19937ar.c equals the published MT19937 "
             "recurrence for ALL seeds and ALL stream positions (mt_impl_eq_spec), uniform integers lie in 0..n-1, "
             "res53 < 2^53, exact-arithmetic range of a+(b-a)r, the Box-Muller s is 0 or >= 2^-104; (Sobol') the tables of "
             "soboldata.h (regenerated into Lean on every run and re-checked by decide +kernel) and all 32 direction "
             "numbers of all 1111 dimensions are odd and < 2^(j+1), no 32-bit overflow, state invariant X_n = xor of "
             "direction vectors over Gray(n), every coordinate strictly inside (0,1) for 1 <= n <= 2^31-1, and every "
             "aligned block of 2^k points (k <= 31) places exactly one point in each of the 2^k subintervals. Tie: raw "
             "streams, sampler values (bitwise, hardware arithmetic, forced raw extremes through the RNG hook) and Sobol' "
             "raw state for sampled and boundary dimensions are compared between model and library on every run, plus an "
             "independent pure-Python MT19937.",
        design="3/C20",
        note=TB + "Hypotheses named in theorems (not axioms): ScaleWithin for the rounded a+(b-a)r; the exactness of "
             "power-of-two scalings of 53-bit integers. libm log/sqrt in nlopt_nrand are observed bitwise, not proved. "
             "Known finding: nlopt_urand with b-a overflowing.",
        technique="Lean 4 proof (loop invariants over Array UInt32; GF(2) triangularity + pigeonhole; chunked decide +kernel over generated tables) + bitwise stream correspondence"),
}

NOT_YET = {}

PROPS = ["C%02d" % i for i in range(1, 21)]


def main():
    checks = []
    for p in PROPS:
        if p in CHECKS:
            c = CHECKS[p]
            checks.append({
                "property_id": p,
                "quick_cmd": "./check.py %s --tier quick" % p,
                "thorough_cmd": "./check.py %s --tier thorough" % p,
                "evidence_file": "/verif/evidence/%s.json" % p,
                "replay_cmd_template": "./check.py %s --replay {path}" % p,
                "engine": "lean4-nlopt-model",
                "level_claimed": {"category": c["category"], "text": c["text"], "design_ref": c["design"]},
                "level_note": c["note"],
                "technique": c["technique"],
            })
    na = [{"property_id": p, "reason": NOT_YET.get(p, "check not built yet in this session (Lean model in progress); not claimed until its theorems and correspondence run clean")}
          for p in PROPS if p not in CHECKS]
    try:
        commits = subprocess.run(["git", "-C", "/repo", "log", "--format=%h %s", "--grep=^verif hooks"],
                                 stdout=subprocess.PIPE).stdout.decode().strip().split("\n")
    except Exception:
        commits = []
    m = {
        "version": 1,
        "setup_cmd": "cd /verif/lean && lake build NloptModel nlopt_model",
        "hooks": {
            "guard": "NLOPT_VERIF",
            "enable": "cmake -DCMAKE_C_FLAGS=-DNLOPT_VERIF -DCMAKE_CXX_FLAGS=-DNLOPT_VERIF -DBUILD_SHARED_LIBS=OFF (done by vlib/common.py build_repo into a content-hash-keyed scratch dir under /var/tmp/nlopt-verif-cache, rebuilt when absent)",
            "baseline_off_cmd": "/verif/tools/baseline_off.sh",
            "source_commits": [c.split(" ")[0] for c in commits if c],
            "add_only": True,
        },
        "engines": [{
            "name": "lean4-nlopt-model",
            "path": "/verif/lean",
            "serves_properties": sorted(CHECKS),
            "kind_free_text": "Lean 4 library NloptModel (executable models + property theorems) with a compiled line-protocol driver; translators regenerate Generated/*.lean from the C sources; C harnesses drive the real library",
        }],
        "checks": checks,
        "not_applicable": na,
        "notes": "One driver: ./check.py <id> --tier quick|thorough. Every run regenerates Generated/*.lean from /repo, rebuilds the Lean library (kernel re-checks all theorems), audits axioms and forbidden tokens, rebuilds /repo with -DNLOPT_VERIF, runs the model/implementation correspondence and the property monitors, writes evidence/<id>.json. Known findings: /verif/known_findings.jsonl.",
    }
    with open(os.path.join(VERIF, "MANIFEST.json"), "w") as f:
        json.dump(m, f, indent=1)
    print("MANIFEST.json: %d checks, %d not_applicable" % (len(checks), len(na)))


if __name__ == "__main__":
    main()
