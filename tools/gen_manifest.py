#!/usr/bin/env python3
"""Writes /verif/MANIFEST.json from the table below (kept here so that the manifest stays valid and
consistent while checks are added)."""
import json
import os
import subprocess

VERIF = os.path.dirname(os.path.dirname(os.path.abspath(__file__)))

TB = ("Trusted: Lean 4.33 kernel (axioms propext, Classical.choice, Quot.sound only; no native_decide, bv_decide, "
      "sorry or own axioms — audited on every run); the translators in /verif/translate; the correspondence harness "
      "in /verif/harness (differential runs of the compiled Lean model driver against the library rebuilt from /repo "
      "with -DNLOPT_VERIF) incl. its canonicalisation (doubles as bit patterns, NaN payloads ignored, block/data "
      "pointers as ledger ids); the C compiler and libm. ")

DRV = (" Driver control-flow models (CRS, ISRES, ESCH, Nelder-Mead, AUGLAG, MLSL, MMA/CCSAQ: Model/*Driver.lean, Props/Drv*.lean) "
       "prove the budget, forced-stop, returned-pair, best-point and stopval statements for every event sequence and arithmetic, "
       "and every run of these algorithms made by the check is replayed through its driver model (code, x, minf bitwise); for ESCH, "
       "CRS, Nelder-Mead and unconstrained ISRES the driver is also packaged as an algorithm machine with an arbitrary proposer and the "
       "statements are lifted through the wrapper theorems to the model of nlopt_optimize itself (Props/E2E*.lean).")

CHECKS = {
    "C19": dict(
        category="proof",
        text="Lean 4 proof over a functional zipper model that mirrors redblack.c step for step: the red-black invariant "
             "(order, root black, no red-red, equal black heights) is preserved by insert, remove and resort for every tree "
             "and key; in-order contents equal the sorted-multiset spec after EVERY finite operation history (induction); "
             "min/max/succ/pred/find/find_le/find_lt/find_gt are characterised against the sorted list; count exact; "
             "height <= 2*log2(N+1). Tie: every run replays exhaustive short and long random histories on the C tree and "
             "on the model and compares shape dumps (colour, key id, value), counts, nlopt_rb_tree_check and all query "
             "answers after each operation.",
        design="3/C19",
        note=TB + "Modelled, not verified: node allocation (malloc failure), rb_tree_destroy, shift_keys; keys are "
             "compared as integers through the comparator.",
        technique="Lean 4 proof (invariant by induction over zipper steps; refinement to sorted list) + shape-level differential correspondence"),
    "C20": dict(
        category="proof",
        text="Lean 4 proofs: (MT) the in-place three-loop block generator of mt19937ar.c equals the published MT19937 "
             "recurrence for ALL seeds and ALL stream positions (mt_impl_eq_spec), uniform integers lie in 0..n-1, "
             "res53 < 2^53, exact-arithmetic range of a+(b-a)r, the Box-Muller s is 0 or >= 2^-104; (Sobol') the tables of "
             "soboldata.h (regenerated into Lean on every run and re-checked by decide +kernel) and all 32 direction "
             "numbers of all 1111 dimensions are odd and < 2^(j+1), no 32-bit overflow, state invariant X_n = xor of "
             "direction vectors over Gray(n), every coordinate strictly inside (0,1) for 1 <= n <= 2^31-1, and every "
             "aligned block of 2^k points (k <= 31) places exactly one point in each of the 2^k subintervals. Tie: raw "
             "streams, sampler values (bitwise, hardware arithmetic, forced raw extremes through the RNG hook) and Sobol' "
             "raw state for sampled and boundary dimensions are compared between model and library on every run, plus an "
             "independent pure-Python MT19937.",
        design="3/C20",
        note=TB + "Hypotheses named in theorems (not axioms): ScaleWithin for the rounded a+(b-a)r; the exactness of "
             "power-of-two scalings of 53-bit integers. libm log/sqrt in nlopt_nrand are observed bitwise, not proved. "
             "Known finding: nlopt_urand with b-a overflowing.",
        technique="Lean 4 proof (loop invariants over Array UInt32; GF(2) triangularity + pigeonhole; chunked decide +kernel over generated tables) + bitwise stream correspondence"),
}


def W(text): return text

CHECKS.update({
    "C01": dict(category="proof",
        text="Lean 4 proofs: the comparison clamps that sit directly in front of the user callback at the COBYLA, BOBYQA, bounded-NEWUOA, rescaled-DIRECT, original-DIRECT, Nelder-Mead/Sbplx and PRAXIS sites deliver a point inside [lb,ub] for EVERY box (finite, half-infinite, infinite, degenerate), every dimension and every non-NaN proposal of the numeric core, for every arithmetic; a coordinate with lb = ub is delivered equal to the bound; dimension elimination writes the fixed coordinates from lb bit for bit for every subset of fixed coordinates and every algorithm machine (elim_equiv). Tie: the wrapper model is replayed against every recorded run (S-wrap) and the site models map the hook-recorded proposals to the points the user saw (S-glue). The in-box monitor covers every callback of every algorithm incl. nested ones. rescale.c (the coordinate scaling of COBYLA / BOBYQA) is modelled statement by statement (Model/Rescale.lean) and compared bit for bit with the library on every run (rescale stream); Props/C01Rescale.lean proves the scale vector's shape, that the re-ordered scaled box is never inverted, and that unscale followed by the clamp against the ORIGINAL bounds lands in the box for every scale and arithmetic.",
        design="3/C01", note=TB + "Modelled, not verified: the numeric cores are arbitrary proposers of non-NaN points; sites without a modelled clamp in front of the callback (SLSQP, Luksan, the unscaled cdirect centers, StoGO, AGS, affine samplers) are monitor-only (evidence unproved_sites). Known findings: Luksan TNEWTON* finite-difference step, SLSQP NaN iterates. Fixed by commits: COBYLA/BOBYQA unscale clamp, x_bound, rescaled and unscaled cdirect, original DIRECT.",
        technique="Lean 4 proof (order lemmas on the IEEE bit pattern; simulation over arbitrary algorithm machines) + site-level and wrapper-level differential correspondence"),
    "C02": dict(category="proof",
        text="Lean 4 proofs over the wrapper model of nlopt_optimize for an ARBITRARY algorithm machine: for the memoized families (COBYLA, TNEWTON*) the returned (x, opt_f) is bit-for-bit the first best in-box evaluation with the sign restored; no wrapper alters the algorithm's x / minf beyond expansion and sign; on every rejection x is untouched; the n = 0 object makes exactly one evaluation. Tie: every recorded run of the real library is replayed through the model (x, opt_f, code, user trace bitwise). Monitor: returned x bitwise in the objective trace with its value, inside the box, STOPVAL_REACHED only when reached, for all algorithms and early exits." + DRV + "",
        design="3/C02", note=TB + "Not modelled: the incumbent bookkeeping inside f2c / third-party cores (monitor only). Known findings: original DIRECT with constraints and no feasible sample (opt_f = +Inf), AUGLAG when the first subsidiary run ends ROUNDOFF_LIMITED, constrained COBYLA returning x re-derived with last-bit differences. Fixed by commits: NEWUOA L530, original DIRECT final x, memo copy-back.",
        technique="Lean 4 proof (invariant over runAlg for arbitrary algorithms; running-minimum fold) + replay correspondence"),
    "C05": dict(category="proof",
        text="Lean 4 proof (memo_returns_best_evaluated): for COBYLA and the truncated-Newton family, for every algorithm machine, opt_f is the minimum over the in-box evaluations (first minimiser, strict improvement rule), sign restored when maximizing. Controlled Random Search: the population rule of crs.c (insert every initial point; a trial replaces the worst member iff it is strictly better; report the tree minimum) is modelled (Model/Crs.lean) and proved to report the best value ever evaluated for every initial population and trial sequence (Props/C05Crs.lean: crs_best_is_min, crs_result_mono; NaN witness); every CRS run is replayed through that model (inc stream). The list of memoized algorithms is pinned (Props/C05.lean). For the other listed incumbent-keeping algorithms the running-minimum monitor compares opt_f with the in-bounds trace on every run (budget sweep 1..N, converged runs); the wrapper replay shows no layer changes the algorithm's result." + DRV + "",
        design="3/C05", note=TB + "The incumbent rules inside BOBYQA/NEWUOA/DIRECT/StoGO/Sbplx/PRAXIS are not modelled (monitor only); those of CRS, ESCH, Nelder-Mead and ISRES are (driver models). Fixed by commits: BOBYQA roundoff exit, memo copy-back, PRAXIS.",
        technique="Lean 4 proof for the memoized families and the CRS population rule + running-minimum monitor + replay correspondence"),
    "C07": dict(category="proof",
        text="Lean 4 proof (optimize_preserves_settings): for every algorithm machine, user and return path the object's user-visible settings after nlopt_optimize equal those before (maximize flip and stopval sign undone via neg(neg s) = s on the bit pattern, an unset initial step stays unset); determinism of the model is by construction, its premise for the code is the regenerated table of writable globals (no_hidden_state, rng_and_timer_are_tls over nm/readelf of the fresh build). Monitor: the same problem in two processes, twice on one object (reseeded) and on a copy gives bitwise equal traces and results; getter snapshots before = after on every path.",
        design="3/C07", note=TB + "Nondeterminism from uninitialised reads inside numeric cores is not expressible in the model. Fixed by commits: numevals for n = 0, StoGO / MMA process-wide variables (see C16).",
        technique="Lean 4 proof over arbitrary algorithm machines + generated global-symbol table (decide) + pair runs"),
    "C08": dict(category="proof",
        text="Lean 4 proof (max_is_min_neg): for every algorithm machine, user and layer stack, maximizing f with stopval s and minimizing -f with stopval -s hand the algorithm the same problem and indistinguishable callbacks (simulation lemma), hence equal evaluation points, x and code, opt_f the exact negation, and the object still reports maximize / stopval s. Tie: both runs of every pair are replayed through the model. Monitor: bitwise pair comparison for all algorithms. Preconditioners (pre_max, CCSAQ only) are outside the wrapper model: Props/C08.lean states what pre_max must deliver (premax_is_pre_of_neg, for every preconditioner, point and vector), hook event 42 ties it to optimize.c on every preconditioner call of the pair runs.",
        design="3/C08, 8.2", note=TB, technique="Lean 4 proof (bisimulation of callback environments for arbitrary algorithms) + pair runs"),
    "C11": dict(category="proof",
        text="Lean 4 proof (elim_equiv): for every algorithm machine of the elimination list (regenerated from elimdim_wrapcheck), every dimension and every non-empty subset of fixed coordinates, the algorithm receives the same problem as for the hand-reduced object (lb, ub, xtol_abs, x_weights, dx shrunk) and indistinguishable callbacks; user callbacks see fixed coordinates bitwise on the bound; x = expand(x_reduced); equal opt_f, code, count. Tie: inner problem dump at nlopt_optimize_ entry vs the model (S-wrap). Monitor: pair runs full vs hand-reduced for every subset (n <= 3) and sampled subsets up to n = 8.",
        design="3/C11", note=TB + "Hypothesis of the theorem: the algorithm never requests gradients of vector constraints (true for the elimination list). Fixed by commit: x_weights were not shrunk.",
        technique="Lean 4 proof (shrink/expand algebra + simulation) + pair runs"),
    "C12": dict(category="proof",
        text="Lean 4 proofs: the flattened value, tolerance and gradient-row arrays and the constraint count that an algorithm reads are the same for a vector constraint and for its components in order (any mix, any m, n); tolerances are copied / default to zero (setter_stores_addCon). Tie: S-api constraint storage; both runs of each pair replayed. Monitor: pair runs vector vs scalars for every constraint-capable algorithm; AGS rejects dimension > 1.",
        design="3/C12", note=TB + "Assumption: a numeric core reads constraints only through the flattened arrays filled by NLopt (observed by the pair runs).",
        technique="Lean 4 proof (list algebra of flattening) + pair runs"),
    "C13": dict(category="proof",
        text="Lean 4 proofs (wrappers_forward_trace/args): through every wrapper stack each user invocation has the creation-time dimension, the same function, a gradient request iff the algorithm asked (vector constraints under elimination excepted, stated), exactly one user invocation per algorithm query and none after the algorithm returned. Monitor: every callback asserts n, its own data pointer, m and the result buffer; gradient NULL for every derivative-free algorithm incl. subsidiary use.",
        design="3/C13", note=TB + "Gradient buffer sizes inside cores are observed by the sanitizer builds only.",
        technique="Lean 4 proof (trace relation for arbitrary algorithms) + argument assertions in every callback"),
    "C14": dict(category="proof",
        text="Lean 4 proofs over a transcription of options.c on an ownership heap: a call returning an error leaves every getter of every object unchanged (all 33 operations, all worlds); each setter stores exactly the documented value and changes nothing else; getters return the stored arrays / documented defaults; tiny bound gaps collapse (which side moves, per variant); the default step is nonzero and not infinite; algorithm and dimension are immutable; nlopt_copy yields equal views on fresh blocks (for every reachable object). Tie: exhaustive short and random API histories over several live objects: return codes, allocator and hook events and full snapshots compared after every call.",
        design="3/C14", note=TB + "User callbacks and data are opaque ids; nlopt_munge_data and the f77 API are not modelled.",
        technique="Lean 4 proof (refinement to the view record, induction over histories) + history-level differential correspondence"),
    "C15": dict(category="proof",
        text="Lean 4 proofs: conservation law over user-data ids (held + released = handed in) for every API function incl. failing and empty registrations; destroy releases exactly the held ids in the C order; nlopt_copy calls the copy hook once per non-NULL pointer with fresh results; set_local_optimizer releases every fresh id it obtained; history theorem (ledger_history) and corollaries no_double_release / all_released_exactly_once. Tie: hook events are part of the compared event list after every call. Monitor: ledger over the real event stream.",
        design="3/C15", note=TB + "Premise: hooks installed right after creation and kept; a failing copy (OOM / hook failure) deliberately leaks the fresh ids (stated as copy_oom_leaks_fresh_ids).",
        technique="Lean 4 proof (multiset conservation by induction over histories) + event-level correspondence"),
    "C18": dict(category="proof",
        text="Lean 4 proofs: ownership invariant (blocks owned by live objects = live blocks, no duplicates) preserved by every operation under every allocation-oracle state and over all histories; no free of a non-live block; destroying everything leaves no live block; an allocation failure is reported as NULL / negative code; failed create / copy restore the heap; settings unchanged (with C14). Tie: every k-th allocation of every call of the scenarios is made to fail on the real library (malloc interposed) and compared with the model event for event.",
        design="3/C18", note=TB + "Exactly one failing allocation per run; the error-message allocation is best effort. Six defects fixed (see known_findings.jsonl).",
        technique="Lean 4 proof (footprint/frame lemmas, induction over histories x oracle) + exhaustive fault-point correspondence"),
})

CHECKS.update({
    "C03": dict(category="proof",
        text="Lean 4 proofs over a transcription of stop.c and of the limit plumbing of optimize.c: nlopt_stop_evals fires exactly from the maxeval-th counted evaluation on (iff, monotone in the count), nlopt_stop_time is monotone in the clock under a monotone subtraction, maxeval <= 0 / maxtime <= 0 mean no limit, MAXEVAL/MAXTIME are sound (reported only when the budget is used up), the override rule of nlopt_optimize_limited is the minimum of the two budgets when both are positive (incl. the zero-budget-means-unlimited hazard, stated), and nlopt_get_numevals is the algorithm's counter for every algorithm machine. Tie: the stop predicates are evaluated by model and library on the same inputs (S-stop stream, virtual clock through the hook), every recorded run is replayed through the wrapper model. Monitor with calibrated per-family overshoot bounds: for every algorithm and nesting the number of objective evaluations after the limit, the reported code (MAXEVAL/MAXTIME only when the budget is used up), numevals = counted evaluations, and termination under a watchdog, incl. NaN/Inf objective values." + DRV + "",
        design="3/C03", note=TB + "The position of the limit tests inside each numeric core is monitored (bounded overshoot per family), not proved. Known findings: COBYLA (and algorithms nesting it) after a huge / non-finite objective value, CCSAQ with a preconditioner after an infinite value, AGS with constraints counts trials, StoGO for boxes far from the origin. Fixed by commits: CRS limits, AUGLAG sub-budget, AGS crash, MMA/CCSA NaN guard (NEWUOA hang).",
        technique="Lean 4 proof (stop predicates, budget arithmetic) + stop-stream correspondence + overshoot monitor"),
    "C04": dict(category="proof",
        text="Lean 4 proofs over the wrapper model for an ARBITRARY algorithm machine: the stop request raised in a callback is visible to the algorithm in the very next answer (stop_request_forwarded), no layer swallows it, every wrapper passes the algorithm's FORCED_STOP code and x through unchanged, the flag value set by nlopt_set_force_stop is stored verbatim and cleared at the start of the next run. Tie: runs with a stop raised at callback k are replayed through the model. Monitor: for every algorithm and k, FORCED_STOP is returned, at most a family-specific number of further callbacks occurs, the next run on the same object starts clean." + DRV + "",
        design="3/C04", note=TB + "Where each core tests the flag is monitored, not proved. Fixed by commits: CRS initial population, Luksan, NEWUOA, AGS, StoGO, BOBYQA, the problem without free variables (model updated with the code: zero_dim_forced_stop).",
        technique="Lean 4 proof (flag propagation through arbitrary algorithm machines) + replay correspondence + per-k monitor"),
    "C06": dict(category="proof",
        text="Lean 4 proofs over models of the two NLopt-authored feasible-incumbent rules. SLSQP driver rule: with tolerances separating feasible from infeasible points the reported point is the best feasible evaluation (slsqp_best_feasible_partial); the full-strength statement is refuted by a concrete witness (slsqp_best_feasible_full_false: with unequal tolerances an infeasible incumbent can shadow feasible points) which is replayed on the real library on every run (harness/wit_slsqp.c, known finding). ISRES rule (Model/Isres.lean, Props/C06Isres.lean): for inequality constraints, if a feasible point was evaluated the incumbent is the first feasible point of minimal value, it stays feasible and never gets worse (isres_best_feasible, isres_first_best, isres_minf_mono_run) under the hypotheses NoNaNFeas and InfeasPos; each hypothesis is shown necessary by a decide-proved witness, and the underflow witness (squared violation rounds to 0) is replayed on the library (harness/wit_isres.c, known finding). Tie: both rules are replayed over the evaluated points of every SLSQP / ISRES run (inc stream) and the model's incumbent is compared bitwise with the returned (x, opt_f). For the other constraint-capable algorithms (COBYLA, MMA, CCSAQ, AUGLAG, ORIG_DIRECT, AGS) the monitor compares the result with the best feasible entry of the recorded trace (tolerances as documented), incl. active constraints with unequal tolerances and several generations of ISRES.",
        design="3/C06, 8.2", note=TB + "Incumbent rules of COBYLA/MMA/AUGLAG/DIRECT/AGS cores are monitor-only. Equality-constrained ISRES is outside the proved statement (isres_best_feasible_eq_false). The feasibility flag and penalties fed to the models are recomputed by the harness from the constraint callbacks (Python doubles).",
        technique="Lean 4 proof (incumbent folds for SLSQP and ISRES, witnesses for the refuted full statements replayed on the library) + incumbent-rule replay correspondence + best-feasible monitor"),
    "C09": dict(category="proof",
        text="Lean 4 proofs over the wrapper model: every ill-posed call (NULL handle, missing objective, NULL x / opt_f, lb > ub, x0 outside the box or off a fixed coordinate, unsupported constraints, missing subsidiary optimizer, population / dimension restrictions) returns its documented negative code before any callback, with x, opt_f and the object untouched (rejected_*, ill_posed_rejected, null_handle_rejected); the accepted/rejected decision is a total function of the settings. Tie: every malformed spec is run on the library and through the model (code, no callbacks, getters before = after). Monitor: malformed stream of the generator covering each rejection branch.",
        design="3/C09", note=TB + "Rejections raised inside numeric cores after the first callback (e.g. BOBYQA step scaling) are monitored only. Fixed by commits: NULL handle crash, fixed-coordinate x0, BOBYQA modifying x on rejection.",
        technique="Lean 4 proof (decision logic stated outright) + malformed-input correspondence"),
    "C10": dict(category="other",
        text="PARTIAL. Proved in Lean 4 for every n, m, population: the work-space partitions of MMA, CCSA, ISRES, Subplex, AUGLAG and PRAXIS fit their allocation (58 theorems regenerated on every run from the malloc size expression and the pointer chain in the C source; the required length of each segment is the hand-written spec), plus row/point index arithmetic of the population methods. NOT proved (no Lean model can carry it): memory safety of the f2c / C++ cores, leaks, undefined arithmetic. These are explored: every run executes all 43 algorithms x n in 1..12 x population / vector storage from 1 x constraints x subsidiary optimizers x NaN/Inf/huge injections under AddressSanitizer + UBSan with a leak check per run; any report, crash or undocumented code is a violation.",
        design="3/C10", note=TB + "Sanitizer runs are sampling, not proof. Fixed by commits: AGS evolvent index, BOBYQA overrun, ORIG_DIRECT unset index, StoGO exit().",
        technique="Lean 4 proof of generated work-space arithmetic (translator from malloc/partition source text) + sanitizer exploration (not a proof)"),
    "C16": dict(category="other",
        text="PARTIAL. Proved in Lean 4: for EVERY interleaving, a thread whose steps touch only its own component ends in the state of its solo run (interleaving_noninterference, schedules_agree). The footprint premise is regenerated from the fresh build on every run: the table of writable non-thread-local symbols of libnlopt.a contains only allow-listed ones (no_hidden_state), no source line outside definitions and the documented legacy setters assigns one of them (allowed_globals_never_written), the generator and clock are thread-local. NOT provable in a Lean model: data races and the C memory model. Explored: the same jobs (own object, own srand) on 1 and on K threads must give bitwise equal traces and results; the K-thread run is repeated under ThreadSanitizer, every report is a violation.",
        design="3/C16", note=TB + "Premises: callbacks touch only their own data; each thread seeds its own generator. Fixed by commits: mma_verbose/ccsa_verbose and StoGO's FC/GC/StartTime/MacEpsilon were process-wide and written by every run.",
        technique="Lean 4 proof (schedule-level non-interference) + generated symbol-table footprint (decide) + threaded differential runs and ThreadSanitizer (not a proof)"),
    "C17": dict(category="proof",
        text="Lean 4 proofs over a model of deprecated.c as a fold of object-API transitions: the object handed to nlopt_optimize by nlopt_minimize_econstrained is exactly the result of the documented setter sequence (constraint i with data base + i*stride, inequality tolerance 0, equality tolerance htol_abs, NULL xtol_abs = no call, global defaults only where the object has no explicit setting), an early return is the code of the first refusing setter, negative n/m/p are rejected (legacy_is_object_api, runUntilFail_eq_runOps, legacy_error_is_setter_error). Tie: the object built inside the legacy call is dumped at nlopt_optimize entry and compared field by field with the hand-built object. Monitor: pair runs legacy | object give bitwise equal traces, x, minimum and code for all algorithms; legacy population default equals the explicit setting.",
        design="3/C17", note=TB + "nlopt_minimize and nlopt_minimize_constrained are thin wrappers of nlopt_minimize_econstrained (read off the source; the harness drives the latter).",
        technique="Lean 4 proof (refinement of the legacy call to an API history) + object-dump correspondence + pair runs"),
})

NOT_YET = {}

PROPS = ["C%02d" % i for i in range(1, 21)]


def main():
    checks = []
    for p in PROPS:
        if p in CHECKS:
            c = CHECKS[p]
            checks.append({
                "property_id": p,
                "quick_cmd": "./check.py %s --tier quick" % p,
                "thorough_cmd": "./check.py %s --tier thorough" % p,
                "evidence_file": "/verif/evidence/%s.json" % p,
                "replay_cmd_template": "./check.py %s --replay {path}" % p,
                "engine": "lean4-nlopt-model",
                "level_claimed": {"category": c["category"], "text": c["text"], "design_ref": c["design"]},
                "level_note": c["note"],
                "technique": c["technique"],
            })
    na = [{"property_id": p, "reason": NOT_YET.get(p, "check not built yet in this session (Lean model in progress); not claimed until its theorems and correspondence run clean")}
          for p in PROPS if p not in CHECKS]
    try:
        commits = subprocess.run(["git", "-C", "/repo", "log", "--format=%h %s", "--grep=^verif hooks"],
                                 stdout=subprocess.PIPE).stdout.decode().strip().split("\n")
    except Exception:
        commits = []
    m = {
        "version": 1,
        "setup_cmd": "cd /verif && python3 tools/regen.py && cd lean && lake build NloptModel nlopt_model",
        "hooks": {
            "guard": "NLOPT_VERIF",
            "enable": "cmake -DCMAKE_C_FLAGS=-DNLOPT_VERIF -DCMAKE_CXX_FLAGS=-DNLOPT_VERIF -DBUILD_SHARED_LIBS=OFF (done by vlib/common.py build_repo into a content-hash-keyed scratch dir under /var/tmp/nlopt-verif-cache, rebuilt when absent)",
            "baseline_off_cmd": "/verif/tools/baseline_off.sh",
            "source_commits": [c.split(" ")[0] for c in commits if c],
            "add_only": True,
        },
        "engines": [{
            "name": "lean4-nlopt-model",
            "path": "/verif/lean",
            "serves_properties": sorted(CHECKS),
            "kind_free_text": "Lean 4 library NloptModel (executable models + property theorems) with a compiled line-protocol driver; translators regenerate Generated/*.lean from the C sources; C harnesses drive the real library",
        }],
        "checks": checks,
        "not_applicable": na,
        "notes": "One driver: ./check.py <id> --tier quick|thorough. Every run regenerates Generated/*.lean from /repo, rebuilds the Lean library (kernel re-checks all theorems), audits axioms and forbidden tokens, rebuilds /repo with -DNLOPT_VERIF, runs the model/implementation correspondence and the property monitors, writes evidence/<id>.json. Known findings: /verif/known_findings.jsonl.",
    }
    with open(os.path.join(VERIF, "MANIFEST.json"), "w") as f:
        json.dump(m, f, indent=1)
    print("MANIFEST.json: %d checks, %d not_applicable" % (len(checks), len(na)))


if __name__ == "__main__":
    main()
