#!/usr/bin/env python3
"""regen.py: runs every translator (vlib/translators.py) against the CURRENT /repo working tree, so that
lean/NloptModel/Generated/*.lean reflect it.  Used by MANIFEST.setup_cmd and after seeded-defect evaluations."""
import os, sys
V = os.path.dirname(os.path.dirname(os.path.abspath(__file__)))
sys.path.insert(0, V)
from vlib import translators   # noqa: E402


class Ctx:
    pass


def main():
    ctx = Ctx()
    bad = 0
    for t in translators.ALL:
        try:
            t(ctx)
        except Exception as e:
            bad += 1
            print("translator %s failed: %r" % (getattr(t, "__name__", "?"), e))
    print("regenerated Generated/*.lean (%d translators, %d failed)" % (len(translators.ALL), bad))
    return 1 if bad else 0


if __name__ == "__main__":
    sys.exit(main())
