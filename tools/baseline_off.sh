#!/bin/sh
# Rebuild /repo WITHOUT the NLOPT_VERIF guard in a scratch directory and run the repository's test suite.
set -e
B=$(mktemp -d /var/tmp/nlopt-baseline-off.XXXXXX)
trap 'rm -rf "$B"' EXIT
cmake -G Ninja -S /repo -B "$B" -DCMAKE_BUILD_TYPE=RelWithDebInfo -DNLOPT_PYTHON=OFF -DNLOPT_OCTAVE=OFF -DNLOPT_MATLAB=OFF -DNLOPT_GUILE=OFF -DNLOPT_SWIG=OFF -DNLOPT_JAVA=OFF -DNLOPT_TESTS=ON >/dev/null
cmake --build "$B" -j16 >/dev/null
ctest --test-dir "$B" -j8 --timeout 900 --output-junit "$B/junit.xml" 2>&1 | tail -5
