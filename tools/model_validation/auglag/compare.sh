#!/bin/sh
# usage: compare.sh <seed> <nruns>  -- runs the C harness, replays through `nlopt_model auglag`, compares
D=$(cd "$(dirname "$0")" && pwd)
S="$D/src"
SRC="$S/auglag.c $S/stop.c $S/timer.c"
[ -x "$D/auglag_replay" ] || gcc -O1 -o "$D/auglag_replay" "$D/auglag_replay.c" $SRC -I"$S" -lm || exit 1
"$D/auglag_replay" "$1" "$2" > /tmp/auglag_trace_$1.txt
grep '^expect' /tmp/auglag_trace_$1.txt | sed 's/^expect //' > /tmp/auglag_expect_$1.txt
grep -v '^expect' /tmp/auglag_trace_$1.txt | "$D/../.lake/build/bin/nlopt_model" auglag > /tmp/auglag_model_$1.txt
if cmp -s /tmp/auglag_expect_$1.txt /tmp/auglag_model_$1.txt; then echo "seed $1: $(wc -l < /tmp/auglag_expect_$1.txt) lines agree"; else echo "seed $1: MISMATCH"; diff /tmp/auglag_expect_$1.txt /tmp/auglag_model_$1.txt | head -10; fi
