/* Differential-test harness for the Lean model `nlopt_model auglag`.
   Calls auglag_minimize (compiled from the unchanged HEAD sources, replay/src) with scripted pseudo-random callbacks and a
   MOCK subsidiary optimizer (nlopt_optimize_limited and the nlopt_set_... calls on sub_opt are defined here) and prints,
   per run, the protocol lines (cfg / eval / sub ... / end / budgets) followed by
   `expect <ret> <nevals> <xvec> <minf> 0 0` and `expect <budgets>`.
   Usage: auglag_replay <seed> <nruns>                                                                       */
#include <stdio.h>
#include <stdlib.h>
#include <string.h>
#include <math.h>
#include <stdint.h>
#include "nlopt-util.h"
#include "auglag.h"

static uint64_t rs;
static uint64_t rnd(void) { rs ^= rs << 13; rs ^= rs >> 7; rs ^= rs << 17; return rs; }
static unsigned rn(unsigned k) { return (unsigned)(rnd() % k); }

static const char *hx(double d) { static char b[16][20]; static int i; uint64_t u; memcpy(&u, &d, 8); i = (i + 1) & 15; sprintf(b[i], "%016llx", (unsigned long long)u); return b[i]; }

static double fpal(void) {
    static const double v[] = {0, 1, 2, 1, -1, 0.5, 3, 2, 1, 0, 5, 7, 4, 100, -0.0};
    unsigned k = rn(40);
    if (k < 15) return v[k];
    if (k == 15) return NAN;
    if (k == 16) return HUGE_VAL;
    if (k == 17) return -HUGE_VAL;
    return (double)((int)rn(9) - 4) * 0.25;
}
static int zero_mode; /* make ICM == 0 likely */
static double gpal(void) {
    unsigned k = rn(30);
    if (zero_mode) return rn(8) ? (rn(2) ? 0.0 : -0.0) : 0.5;
    if (k == 0) return NAN;
    if (k == 1) return 1e-170;
    if (k == 2) return 1e200;
    if (k == 3) return HUGE_VAL;
    if (k == 4) return 1e-9;
    if (k == 5) return -0.0;
    if (k == 6) return -HUGE_VAL;
    if (k < 12) return 0.0;
    return (double)((int)rn(9) - 5) * 0.5;
}
static double xpal(void) { return (double)rn(4) * 0.5 - 0.5; }

static int n, m, p, dm, mdim[4], pdim[4];
static int force_flag, ncb_in_event, stop_event, stop_cb;
static int sub_stop_run, sub_stop_call;  /* raise the flag during subsidiary run number .., call number .. */
static int evno, in_sub, subno, subcall;
static int open_ev; static char gsbuf[4096], hsbuf[4096], evhead[1024]; static int stopseen;
static char budgets[4096];

static void flush_ev(void) {
    if (!open_ev) return;
    printf("%s %d %s %s\n", evhead, stopseen, hsbuf[0] ? hsbuf : "-", gsbuf[0] ? gsbuf : "-");
    open_ev = 0;
}
static void maybe_stop(void) {
    if (in_sub) return;
    ++ncb_in_event;
    if (evno == stop_event && ncb_in_event == stop_cb) { force_flag = 1; stopseen = ncb_in_event; }
}
static double obj(unsigned nn, const double *x, double *grad, void *d) {
    unsigned i; double f = fpal(); char *q = evhead;
    (void)grad; (void)d;
    if (in_sub) { ++subcall; if (subno == sub_stop_run && subcall == sub_stop_call) force_flag = 1; return f; }
    flush_ev();
    ++evno; ncb_in_event = 0; stopseen = 0; open_ev = 1; gsbuf[0] = hsbuf[0] = 0;
    q += sprintf(q, "eval ");
    for (i = 0; i < nn; ++i) q += sprintf(q, "%s%s", i ? "," : "", hx(x[i]));
    sprintf(q, " %s", hx(f));
    maybe_stop();
    return f;
}
static void mcon(unsigned mm, double *result, unsigned nn, const double *x, double *grad, void *d) {
    unsigned i; char *buf = d ? hsbuf : gsbuf; char *q = buf + strlen(buf);
    (void)nn; (void)x; (void)grad;
    if (in_sub) { for (i = 0; i < mm; ++i) result[i] = gpal(); return; }
    if (buf[0]) q += sprintf(q, ";");
    for (i = 0; i < mm; ++i) { result[i] = gpal(); q += sprintf(q, "%s%s", i ? "," : "", hx(result[i])); }
    maybe_stop();
}
static double scon(unsigned nn, const double *x, double *grad, void *d) {
    double r; mcon(1, &r, nn, x, grad, d); return r;
}

/* ---- mock subsidiary optimizer ---- */
static nlopt_func sub_f; static void *sub_f_data;
static int respect_budget;
nlopt_result NLOPT_STDCALL nlopt_set_min_objective(nlopt_opt opt, nlopt_func f, void *f_data) { (void)opt; sub_f = f; sub_f_data = f_data; return NLOPT_SUCCESS; }
nlopt_result NLOPT_STDCALL nlopt_set_lower_bounds(nlopt_opt opt, const double *lb) { (void)opt; (void)lb; return NLOPT_SUCCESS; }
nlopt_result NLOPT_STDCALL nlopt_set_upper_bounds(nlopt_opt opt, const double *ub) { (void)opt; (void)ub; return NLOPT_SUCCESS; }
nlopt_result NLOPT_STDCALL nlopt_set_stopval(nlopt_opt opt, double v) { (void)opt; (void)v; return NLOPT_SUCCESS; }
nlopt_result NLOPT_STDCALL nlopt_remove_inequality_constraints(nlopt_opt opt) { (void)opt; return NLOPT_SUCCESS; }
nlopt_result NLOPT_STDCALL nlopt_remove_equality_constraints(nlopt_opt opt) { (void)opt; return NLOPT_SUCCESS; }
nlopt_result NLOPT_STDCALL nlopt_add_inequality_constraint(nlopt_opt opt, nlopt_func fc, void *d, double tol) { (void)opt; (void)fc; (void)d; (void)tol; return NLOPT_SUCCESS; }
nlopt_result NLOPT_STDCALL nlopt_add_inequality_mconstraint(nlopt_opt opt, unsigned mm, nlopt_mfunc fc, void *d, const double *tol) { (void)opt; (void)mm; (void)fc; (void)d; (void)tol; return NLOPT_SUCCESS; }

nlopt_result nlopt_optimize_limited(nlopt_opt opt, double *x, double *minf, int maxeval, double maxtime)
{
    static const int retpal[] = {1, 1, 2, 3, 3, 4, 4, 4, 5, 5, 6, -1, -2, -3, -4, -4, -4, -5};
    int used, i, ret; double xt[3]; char *q = budgets + strlen(budgets);
    (void)opt; (void)maxtime;
    flush_ev();
    sprintf(q, "%s%d", budgets[0] ? "," : "", maxeval);
    ++subno; subcall = 0; in_sub = 1;
    used = rn(8);
    if (respect_budget && maxeval > 0 && used > maxeval) used = maxeval;
    for (i = 0; i < used; ++i) {
        int j; for (j = 0; j < n; ++j) xt[j] = xpal();
        *minf = sub_f((unsigned)n, xt, NULL, sub_f_data);
        if (force_flag && rn(3)) { ++i; break; }
    }
    used = i;
    in_sub = 0;
    if (rn(4)) for (i = 0; i < n; ++i) x[i] = xpal();   /* else: the point is left where it was */
    ret = retpal[rn(sizeof retpal / sizeof retpal[0])];
    if (force_flag && rn(4)) ret = NLOPT_FORCED_STOP;
    printf("sub %d ", ret);
    for (i = 0; i < n; ++i) printf("%s%s", i ? "," : "", hx(x[i]));
    printf(" %s %d %d\n", hx(*minf), used, force_flag ? 1 : 0);
    return (nlopt_result)ret;
}

int main(int argc, char **argv) {
    int run, nruns = argc > 2 ? atoi(argv[2]) : 10, i, j;
    rs = (argc > 1 ? strtoull(argv[1], 0, 10) : 1) * 2654435761u + 88172645463325252ull;
    for (run = 0; run < nruns; ++run) {
        double lb[3], ub[3], x[3], minf = 12345, xtol_abs[3], xw[3], gtol[4][3], htol[4][3];
        nlopt_constraint fc[4], h[4]; nlopt_stopping stop; int nevals = 0, sub_has_fc; nlopt_result ret;
        static const double tolpal[] = {0, 0, 1e-8, 0.5, 1, 2};
        static const double svpal[] = {-HUGE_VAL, -HUGE_VAL, -HUGE_VAL, 0.5, 2, 4, 1, HUGE_VAL};
        static const double ftpal[] = {0, 0, 0, 1e-4, 0.5, 1, 2};
        memset(fc, 0, sizeof fc); memset(h, 0, sizeof h);
        n = 1 + rn(3); m = rn(3); p = rn(3);
        sub_has_fc = rn(3) == 0;
        dm = sub_has_fc ? 0 : m;
        zero_mode = rn(4) == 0;
        respect_budget = rn(2);
        for (j = 0; j < n; ++j) { lb[j] = -2; ub[j] = 3; x[j] = xpal(); xtol_abs[j] = ftpal[rn(7)]; xw[j] = 1 + rn(2); }
        for (i = 0; i < m; ++i) { mdim[i] = 1 + rn(2); for (j = 0; j < mdim[i]; ++j) gtol[i][j] = rn(40) ? tolpal[rn(6)] : NAN;
            fc[i].m = mdim[i]; fc[i].tol = gtol[i]; fc[i].f_data = NULL;
            if (mdim[i] == 1 && rn(2)) fc[i].f = scon; else fc[i].mf = mcon; }
        for (i = 0; i < p; ++i) { pdim[i] = 1 + rn(2); for (j = 0; j < pdim[i]; ++j) htol[i][j] = tolpal[rn(6)];
            h[i].m = pdim[i]; h[i].tol = htol[i]; h[i].f_data = (void *)1;
            if (pdim[i] == 1 && rn(2)) h[i].f = scon; else h[i].mf = mcon; }
        stop.n = n; stop.minf_max = svpal[rn(8)]; stop.ftol_rel = ftpal[rn(7)]; stop.ftol_abs = ftpal[rn(7)];
        stop.xtol_rel = ftpal[rn(7)]; stop.xtol_abs = rn(2) ? xtol_abs : NULL; stop.x_weights = rn(3) == 0 ? xw : NULL;
        stop.nevals_p = &nevals; stop.maxeval = rn(5) == 0 ? (rn(2) ? 0 : -3) : 1 + rn(40); stop.maxtime = 0; stop.start = 0;
        force_flag = 0; stop.force_stop = &force_flag; stop.stop_msg = NULL;
        stop_event = rn(3) == 0 ? 1 + rn(8) : 0; stop_cb = 1 + rn(1 + dm + p);
        sub_stop_run = rn(4) == 0 ? 1 + rn(5) : 0; sub_stop_call = 1 + rn(4);
        evno = 0; open_ev = 0; subno = 0; in_sub = 0; budgets[0] = 0;
        printf("cfg n=%d maxeval=%d stopval=%s ftol_rel=%s ftol_abs=%s xtol_rel=%s", n, stop.maxeval,
               hx(stop.minf_max), hx(stop.ftol_rel), hx(stop.ftol_abs), hx(stop.xtol_rel));
        printf(" xtol_abs="); if (stop.xtol_abs) for (j = 0; j < n; ++j) printf("%s%s", j ? "," : "", hx(xtol_abs[j])); else printf("-");
        printf(" xw="); if (stop.x_weights) for (j = 0; j < n; ++j) printf("%s%s", j ? "," : "", hx(xw[j])); else printf("-");
        printf(" x0="); for (j = 0; j < n; ++j) printf("%s%s", j ? "," : "", hx(x[j]));
        printf(" htol="); if (!p) printf("-"); for (i = 0; i < p; ++i) { if (i) printf(";"); for (j = 0; j < pdim[i]; ++j) printf("%s%s", j ? "," : "", hx(htol[i][j])); }
        printf(" gtol="); if (!dm) printf("-"); for (i = 0; i < dm; ++i) { if (i) printf(";"); for (j = 0; j < mdim[i]; ++j) printf("%s%s", j ? "," : "", hx(gtol[i][j])); }
        printf("\n");
        ret = auglag_minimize(n, obj, NULL, m, fc, p, h, lb, ub, x, &minf, &stop, (nlopt_opt)&stop, sub_has_fc);
        flush_ev();
        printf("end\nbudgets\n");
        printf("expect %d %d ", (int)ret, nevals);
        for (j = 0; j < n; ++j) printf("%s%s", j ? "," : "", hx(x[j]));
        printf(" %s 0 0\n", hx(minf));
        printf("expect %s\n", budgets[0] ? budgets : "-");
    }
    return 0;
}
