/* Script-driven replay: reads protocol lines of `nlopt_model auglag` (cfg / eval / sub / end) on stdin and DRIVES the real
   auglag_minimize (unchanged HEAD sources in replay/src, mock subsidiary optimizer) with callbacks that return the scripted
   values; prints for every `end` the line the model prints: `<ret> <nevals> <xvec> <minf> <short> <malformed>`
   (short = 1: the driver asked for an event after the script ran out; malformed = 1: it asked for the other kind of event
   or evaluated at another point than the script says).  `budgets` lines print the budgets seen by the mock.
   Only scalar... no: vector constraints are supported (every constraint object is registered as an mconstraint).      */
#include <stdio.h>
#include <stdlib.h>
#include <string.h>
#include <math.h>
#include <stdint.h>
#include <setjmp.h>
#include "nlopt-util.h"
#include "auglag.h"

#define MAXEV 256
#define MAXV 8
typedef struct { int kind; /* 0 eval, 1 sub */ double x[MAXV]; int nx; double f; int stop; int ret, used, forced;
                 double hs[MAXV][MAXV]; int nhs, hdim[MAXV]; double gs[MAXV][MAXV]; int ngs, gdim[MAXV]; } ev_t;
static ev_t evs[MAXEV]; static int nev, cur, cbno;
static int n, maxeval, p, m, pdim[MAXV], mdim[MAXV]; static double htol[MAXV][MAXV], gtol[MAXV][MAXV];
static double x0[MAXV], stopval, ftol_rel, ftol_abs, xtol_rel, xtol_abs[MAXV], xw[MAXV]; static int has_xa, has_xw;
static int force_flag, in_sub, is_short, is_mal; static jmp_buf jb; static char budgets[1024];
static nlopt_func sub_f; static void *sub_f_data; static int *g_nevals; static int pending_async;

static double unhex(const char *s) { uint64_t u = strtoull(s, NULL, 16); double d; memcpy(&d, &u, 8); return d; }
static const char *hx(double d) { static char b[16][20]; static int i; uint64_t u; memcpy(&u, &d, 8); i = (i + 1) & 15; sprintf(b[i], "%016llx", (unsigned long long)u); return b[i]; }
static int pvec(char *t, double *out) { int k = 0; char *q; if (!strcmp(t, "-")) return 0; for (q = strtok(t, ","); q; q = strtok(NULL, ",")) out[k++] = unhex(q); return k; }
static int pvecs(char *t, double out[MAXV][MAXV], int *dims) {
    int k = 0; char *parts[MAXV]; char *q; if (!strcmp(t, "-")) return 0;
    for (q = t; q; ) { char *sc = strchr(q, ';'); parts[k++] = q; if (sc) { *sc = 0; q = sc + 1; } else q = NULL; }
    { int i; for (i = 0; i < k; ++i) dims[i] = pvec(parts[i], out[i]); }
    return k;
}
static void stop_here(int sh, int mal) { is_short = sh; is_mal = mal; longjmp(jb, 1); }

static double obj(unsigned nn, const double *x, double *grad, void *d) {
    (void)grad; (void)d;
    if (in_sub) return 0;
    if (cur >= nev) { --*g_nevals; stop_here(1, 0); }   /* the counter was incremented before the call */
    if (evs[cur].kind != 0 || memcmp(x, evs[cur].x, nn * sizeof(double))) { --*g_nevals; stop_here(0, 1); }
    cbno = 1;
    if (evs[cur].stop == cbno) force_flag = 1;
    if (p + m == 0 || force_flag) return evs[cur++].f;   /* event complete (or cut short) */
    return evs[cur].f;
}
static void con(unsigned mm, double *result, unsigned nn, const double *x, double *grad, void *d) {
    intptr_t id = (intptr_t)d; int iseq = id >= 100; int k = iseq ? (int)id - 100 : (int)id; unsigned i;
    (void)nn; (void)x; (void)grad;
    if (in_sub) { for (i = 0; i < mm; ++i) result[i] = 0; return; }
    for (i = 0; i < mm; ++i) result[i] = iseq ? evs[cur].hs[k][i] : evs[cur].gs[k][i];
    ++cbno;
    if (evs[cur].stop == cbno) force_flag = 1;
    if (cbno == 1 + p + m || force_flag) { if (evs[cur].stop > 1 + p + m) pending_async = 1; /* asynchronous stop: raised after the last test */ ++cur; }
}
nlopt_result NLOPT_STDCALL nlopt_set_min_objective(nlopt_opt opt, nlopt_func f, void *f_data) { (void)opt; sub_f = f; sub_f_data = f_data; return NLOPT_SUCCESS; }
nlopt_result NLOPT_STDCALL nlopt_set_lower_bounds(nlopt_opt opt, const double *lb) { (void)opt; (void)lb; return NLOPT_SUCCESS; }
nlopt_result NLOPT_STDCALL nlopt_set_upper_bounds(nlopt_opt opt, const double *ub) { (void)opt; (void)ub; return NLOPT_SUCCESS; }
nlopt_result NLOPT_STDCALL nlopt_set_stopval(nlopt_opt opt, double v) { (void)opt; (void)v; return NLOPT_SUCCESS; }
nlopt_result NLOPT_STDCALL nlopt_remove_inequality_constraints(nlopt_opt opt) { (void)opt; return NLOPT_SUCCESS; }
nlopt_result NLOPT_STDCALL nlopt_remove_equality_constraints(nlopt_opt opt) { (void)opt; return NLOPT_SUCCESS; }
nlopt_result NLOPT_STDCALL nlopt_add_inequality_constraint(nlopt_opt opt, nlopt_func fc, void *d, double tol) { (void)opt; (void)fc; (void)d; (void)tol; return NLOPT_SUCCESS; }
nlopt_result NLOPT_STDCALL nlopt_add_inequality_mconstraint(nlopt_opt opt, unsigned mm, nlopt_mfunc fc, void *d, const double *tol) { (void)opt; (void)mm; (void)fc; (void)d; (void)tol; return NLOPT_SUCCESS; }
nlopt_result nlopt_optimize_limited(nlopt_opt opt, double *x, double *minf, int maxev, double maxtime) {
    int i; double xt[MAXV]; ev_t *e;
    (void)opt; (void)maxtime;
    if (pending_async) force_flag = 1;
    if (cur >= nev) stop_here(1, 0);
    if (evs[cur].kind != 1) stop_here(0, 1);
    e = &evs[cur++];
    sprintf(budgets + strlen(budgets), "%s%d", budgets[0] ? "," : "", maxev);
    in_sub = 1; for (i = 0; i < n; ++i) xt[i] = 0;
    for (i = 0; i < e->used; ++i) sub_f((unsigned)n, xt, NULL, sub_f_data);
    in_sub = 0;
    if (e->forced) force_flag = 1;
    memcpy(x, e->x, n * sizeof(double)); *minf = e->f;
    return (nlopt_result)e->ret;
}

static char *kv(char **toks, int nt, const char *k) { int i; size_t l = strlen(k); for (i = 0; i < nt; ++i) if (!strncmp(toks[i], k, l) && toks[i][l] == '=') return toks[i] + l + 1; return NULL; }

int main(void) {
    char line[8192];
    while (fgets(line, sizeof line, stdin)) {
        char *toks[32]; int nt = 0; char *q;
        line[strcspn(line, "\n")] = 0;
        for (q = strtok(line, " "); q && nt < 32; q = strtok(NULL, " ")) toks[nt++] = q;
        if (!nt) continue;
        if (!strcmp(toks[0], "cfg")) {
            char *v; char buf[4096]; int dims[MAXV];
            nev = 0; n = (v = kv(toks, nt, "n")) ? atoi(v) : 0; maxeval = (v = kv(toks, nt, "maxeval")) ? atoi(v) : 0;
            stopval = (v = kv(toks, nt, "stopval")) ? unhex(v) : -HUGE_VAL;
            ftol_rel = (v = kv(toks, nt, "ftol_rel")) ? unhex(v) : 0; ftol_abs = (v = kv(toks, nt, "ftol_abs")) ? unhex(v) : 0;
            xtol_rel = (v = kv(toks, nt, "xtol_rel")) ? unhex(v) : 0;
            has_xa = 0; if ((v = kv(toks, nt, "xtol_abs")) && strcmp(v, "-")) { strcpy(buf, v); pvec(buf, xtol_abs); has_xa = 1; }
            has_xw = 0; if ((v = kv(toks, nt, "xw")) && strcmp(v, "-")) { strcpy(buf, v); pvec(buf, xw); has_xw = 1; }
            if ((v = kv(toks, nt, "x0"))) { strcpy(buf, v); pvec(buf, x0); }
            p = 0; if ((v = kv(toks, nt, "htol"))) { strcpy(buf, v); p = pvecs(buf, htol, dims); memcpy(pdim, dims, sizeof dims); }
            m = 0; if ((v = kv(toks, nt, "gtol"))) { strcpy(buf, v); m = pvecs(buf, gtol, dims); memcpy(mdim, dims, sizeof dims); }
        } else if (!strcmp(toks[0], "eval")) {
            ev_t *e = &evs[nev++]; memset(e, 0, sizeof *e); e->kind = 0; e->nx = pvec(toks[1], e->x); e->f = unhex(toks[2]); e->stop = atoi(toks[3]);
            if (nt > 4) e->nhs = pvecs(toks[4], e->hs, e->hdim);
            if (nt > 5) e->ngs = pvecs(toks[5], e->gs, e->gdim);
        } else if (!strcmp(toks[0], "sub")) {
            ev_t *e = &evs[nev++]; memset(e, 0, sizeof *e); e->kind = 1; e->ret = atoi(toks[1]); e->nx = pvec(toks[2], e->x); e->f = unhex(toks[3]);
            e->used = atoi(toks[4]); e->forced = atoi(toks[5]);
        } else if (!strcmp(toks[0], "end")) {
            double x[MAXV], minf = 12345, lb[MAXV], ub[MAXV]; nlopt_constraint fc[MAXV], h[MAXV]; nlopt_stopping stop; int nevals = 0, i, j;
            volatile int ret = 0;
            memset(fc, 0, sizeof fc); memset(h, 0, sizeof h);
            for (i = 0; i < n; ++i) { x[i] = x0[i]; lb[i] = -HUGE_VAL; ub[i] = HUGE_VAL; }
            for (i = 0; i < p; ++i) { h[i].m = pdim[i]; h[i].mf = con; h[i].f_data = (void *)(intptr_t)(100 + i); h[i].tol = htol[i]; }
            for (i = 0; i < m; ++i) { fc[i].m = mdim[i]; fc[i].mf = con; fc[i].f_data = (void *)(intptr_t)i; fc[i].tol = gtol[i]; }
            stop.n = n; stop.minf_max = stopval; stop.ftol_rel = ftol_rel; stop.ftol_abs = ftol_abs; stop.xtol_rel = xtol_rel;
            stop.xtol_abs = has_xa ? xtol_abs : NULL; stop.x_weights = has_xw ? xw : NULL; stop.nevals_p = &nevals; stop.maxeval = maxeval;
            stop.maxtime = 0; stop.start = 0; force_flag = 0; stop.force_stop = &force_flag; stop.stop_msg = NULL;
            cur = 0; in_sub = 0; is_short = is_mal = 0; budgets[0] = 0; g_nevals = &nevals; pending_async = 0;
            if (!setjmp(jb)) ret = auglag_minimize(n, obj, NULL, m, fc, p, h, lb, ub, x, &minf, &stop, (nlopt_opt)&stop, 0);
            else { ret = 0; /* xcur leaks; the caller's x and *minf are as the driver left them */ }
            printf("%d %d ", is_short || is_mal ? 0 : (int)ret, nevals);
            for (j = 0; j < n; ++j) printf("%s%s", j ? "," : "", hx(x[j]));
            printf(" %s %d %d\n", hx(minf), is_short, is_mal);
        } else if (!strcmp(toks[0], "budgets")) printf("%s\n", budgets[0] ? budgets : "-");
        else printf("bad-op\n");
    }
    return 0;
}
