/* Differential harness: calls crs_minimize of the built library directly with a scripted objective.
   stdin: one line   n pop maxeval stopval ftol_rel ftol_abs xtol_rel xtol_abs(0=NULL|hex) seed forced_at nvals v1 ... vk
   (doubles as 16 hex digits).  The k-th evaluation returns v_k (the last one repeated); evaluation number forced_at
   (1-based, 0 = never) raises the forced stop.  stdout: protocol lines for `nlopt_model crs`, then `# <expected result line>`. */
#include <stdio.h>
#include <stdlib.h>
#include <string.h>
#include <stdint.h>
#include "nlopt.h"
#include "nlopt-util.h"
#include "crs.h"

static double hx(const char *s) { uint64_t u = strtoull(s, NULL, 16); double d; memcpy(&d, &u, 8); return d; }
static void ph(double d) { uint64_t u; memcpy(&u, &d, 8); printf("%016llx", (unsigned long long) u); }
static void pv(int n, const double *x) { int i; if (!n) printf("-"); for (i = 0; i < n; ++i) { if (i) printf(","); ph(x[i]); } }

static double *vals; static int nvals, count, forced_at, force_flag;
static double obj(unsigned n, const double *x, double *grad, void *data)
{
    double f = vals[count < nvals ? count : nvals - 1];
    ++count;
    if (count == forced_at) force_flag = 1;
    printf("ev "); pv((int) n, x); printf(" "); ph(f); printf(" %d\n", count == forced_at);
    (void) grad; (void) data;
    return f;
}

int main(void)
{
    int n, pop, maxeval, i, nevals = 0; unsigned long seed;
    char sv[64], fr[64], fa[64], xr[64], xa[64];
    double lb[8], ub[8], x[8], xtolabs[8], minf, sentinel;
    nlopt_stopping stop; nlopt_result ret;
    if (scanf("%d %d %d %63s %63s %63s %63s %63s %lu %d %d", &n, &pop, &maxeval, sv, fr, fa, xr, xa, &seed, &forced_at, &nvals) != 11) return 2;
    vals = (double *) malloc(sizeof(double) * (nvals + 1));
    for (i = 0; i < nvals; ++i) { char b[64]; if (scanf("%63s", b) != 1) return 2; vals[i] = hx(b); }
    for (i = 0; i < n; ++i) { lb[i] = -10; ub[i] = 10; x[i] = 0.5 + i; xtolabs[i] = hx(xa); }
    sentinel = hx("7ff8dead0000beef"); minf = sentinel;
    stop.n = (unsigned) n; stop.minf_max = hx(sv); stop.ftol_rel = hx(fr); stop.ftol_abs = hx(fa); stop.xtol_rel = hx(xr);
    stop.xtol_abs = strcmp(xa, "0") ? xtolabs : NULL; stop.x_weights = NULL;
    stop.nevals_p = &nevals; stop.maxeval = maxeval; stop.maxtime = 0; stop.start = 0; stop.force_stop = &force_flag; stop.stop_msg = NULL;
    { char *msg = NULL; stop.stop_msg = &msg;
    nlopt_init_genrand(seed);
    printf("cfg n=%d pop=%d maxeval=%d stopval=", n, pop, maxeval); ph(stop.minf_max);
    printf(" ftol_rel="); ph(stop.ftol_rel); printf(" ftol_abs="); ph(stop.ftol_abs); printf(" xtol_rel="); ph(stop.xtol_rel); printf(" xtol_abs=");
    if (stop.xtol_abs) pv(n, xtolabs); else printf("-");
    printf(" x0="); pv(n, x); printf("\n");
    ret = crs_minimize(n, obj, NULL, lb, ub, x, &minf, &stop, pop, 0);
    printf("end\n# %d %d ", (int) ret, nevals); pv(n, x); printf(" ");
    if (memcmp(&minf, &sentinel, 8) == 0) printf("-"); else ph(minf);
    printf(" 0\n"); }
    return 0;
}
