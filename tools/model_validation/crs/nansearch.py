import itertools, struct, subprocess
H = lambda d: struct.pack('>d', d).hex()
NAN='7ff8000000000000'; Z=H(0.0)
vals={ 'n':NAN, '0':H(0.0), '1':H(1.0), '2':H(2.0), '3':H(3.0)}
inv={v:k for k,v in vals.items()}
import math
def f(h): return struct.unpack('>d', bytes.fromhex(h))[0]
found=0
for pop in (2,3,4):
  for L in range(pop, pop+3):
    for seq in itertools.product('n0123', repeat=L):
        if 'n' not in seq: continue
        line=f"1 {pop} {L} {H(float('-inf'))} {Z} {Z} {Z} 0 1 0 {L} "+' '.join(vals[c] for c in seq)
        out=subprocess.run(['./harness'],input=line+'\n',capture_output=True,text=True,timeout=10).stdout.splitlines()
        r=out[-1][2:].split()
        ret,ne,x,minf=r[0],int(r[1]),r[2],r[3]
        cons=[vals[c] for c in seq[:ne]]
        real=[f(v) for v in cons if v!=NAN]
        if minf=='-' : continue
        m=f(minf)
        if real and (not math.isnan(m)) and m>min(real):
            found+=1
            if found<=8: print('pop',pop,'seq',''.join(seq),'-> C:',' '.join(r), ' least non-NaN value', min(real))
    if found: break
  if found: break
print('found',found)
