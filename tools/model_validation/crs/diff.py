#!/usr/bin/env python3
"""Differential test: real crs_minimize (scripted objective) vs `nlopt_model crs`."""
import random, struct, subprocess, sys
H = lambda d: struct.pack('>d', d).hex()
NAN = '7ff8000000000000'
MODEL = '/var/tmp/lw_crs/.lake/build/bin/nlopt_model'
def gen(rng, allow_nan):
    n = rng.choice([1, 1, 2, 3])
    pop = rng.choice([0, n + 1, n + 1, n + 2, 2 * n + 3, n, 7, 12])
    N = pop if pop else 10 * (n + 1)
    mode = rng.choice(['ints', 'rand', 'dec', 'mix'])
    k = rng.randint(1, 3 * N + 25)
    vals = []
    cur = 100.0
    for i in range(k):
        if mode == 'ints': v = float(rng.randint(0, 4))
        elif mode == 'rand': v = rng.uniform(-5, 5)
        elif mode == 'dec':
            cur -= rng.choice([0, 0.5, 1, 3]); v = cur if rng.random() < 0.7 else cur + rng.uniform(0, 50)
        else: v = rng.choice([0.0, -0.0, 1.0, -1.0, float('inf'), float('-inf'), 2.5, rng.uniform(-2, 2)])
        s = H(v)
        if allow_nan and rng.random() < 0.08: s = NAN
        vals.append(s)
    maxeval = rng.choice([0, 0, rng.randint(1, k + 5), rng.randint(1, N + 3)])
    stopval = rng.choice([float('-inf'), float('-inf'), rng.uniform(-5, 100), 0.0, 1.0, float('nan') if allow_nan else -1.0])
    ftol_rel = rng.choice([0.0, 0.0, 1e-2, 0.3]); ftol_abs = rng.choice([0.0, 0.0, 0.75, 2.0])
    xtol_rel = rng.choice([0.0, 0.0, 0.5, 2.0]); xtol_abs = rng.choice(['0', '0', H(1.0), H(30.0)])
    # the script must terminate the C loop: force a stop at the last scripted value unless maxeval does it
    forced_at = k if (maxeval == 0 or maxeval > k or rng.random() < 0.3) else 0
    if forced_at == 0 and rng.random() < 0.2: forced_at = rng.randint(1, k)
    line = f"{n} {pop} {maxeval} {H(stopval)} {H(ftol_rel)} {H(ftol_abs)} {H(xtol_rel)} {xtol_abs} {rng.randint(0, 10**6)} {forced_at} {k} " + ' '.join(vals)
    return line
def main():
    seed = int(sys.argv[1]) if len(sys.argv) > 1 else 1
    cnt = int(sys.argv[2]) if len(sys.argv) > 2 else 500
    allow_nan = len(sys.argv) > 3 and sys.argv[3] == 'nan'
    rng = random.Random(seed)
    bad = 0; codes = {}; exps = []; lines = []; inp = []
    for t in range(cnt):
        line = gen(rng, allow_nan)
        out = subprocess.run(['./harness'], input=line + '\n', capture_output=True, text=True, timeout=20).stdout.splitlines()
        exps.append(out[-1][2:]); lines.append(line); inp += out[:-1]
    got = subprocess.run([MODEL, 'crs'], input='\n'.join(inp) + '\n', capture_output=True, text=True, timeout=600).stdout.splitlines()
    assert len(got) == cnt, (len(got), cnt)
    for t in range(cnt):
        codes[exps[t].split()[0]] = codes.get(exps[t].split()[0], 0) + 1
        if got[t] != exps[t]:
            bad += 1
            if bad <= 5: print('MISMATCH', t, '\n  cfg', lines[t][:300], '\n  C    ', exps[t], '\n  model', got[t])
    print(f'seed {seed}: {cnt} runs, {bad} mismatches, return codes {codes}')
main()
