/* Copyright (c) 2007-2014 Massachusetts Institute of Technology
 *
 * Permission is hereby granted, free of charge, to any person obtaining
 * a copy of this software and associated documentation files (the
 * "Software"), to deal in the Software without restriction, including
 * without limitation the rights to use, copy, modify, merge, publish,
 * distribute, sublicense, and/or sell copies of the Software, and to
 * permit persons to whom the Software is furnished to do so, subject to
 * the following conditions:
 *
 * The above copyright notice and this permission notice shall be
 * included in all copies or substantial portions of the Software.
 *
 * THE SOFTWARE IS PROVIDED "AS IS", WITHOUT WARRANTY OF ANY KIND,
 * EXPRESS OR IMPLIED, INCLUDING BUT NOT LIMITED TO THE WARRANTIES OF
 * MERCHANTABILITY, FITNESS FOR A PARTICULAR PURPOSE AND
 * NONINFRINGEMENT. IN NO EVENT SHALL THE AUTHORS OR COPYRIGHT HOLDERS BE
 * LIABLE FOR ANY CLAIM, DAMAGES OR OTHER LIABILITY, WHETHER IN AN ACTION
 * OF CONTRACT, TORT OR OTHERWISE, ARISING FROM, OUT OF OR IN CONNECTION
 * WITH THE SOFTWARE OR THE USE OR OTHER DEALINGS IN THE SOFTWARE.
 */

#include <math.h>
#include <float.h>
#include <string.h>
#include <stdio.h>
#include <stdarg.h>
#include "nlopt-util.h"

/* utility routines to implement the various stopping criteria */

static double sc(double x, double smin, double smax)
{
    return smin + x * (smax - smin);
}

static double vector_norm(unsigned n, const double *vec, const double *w, const double *scale_min, const double *scale_max)
{
    unsigned i;
    double ret = 0;
    if (scale_min && scale_max) {
        if (w)
            for (i = 0; i < n; i++)
                ret += w[i] * fabs(sc(vec[i], scale_min[i], scale_max[i]));
        else
            for (i = 0; i < n; i++)
                ret += fabs(sc(vec[i], scale_min[i], scale_max[i]));
    } else {
        if (w)
            for (i = 0; i < n; i++)
                ret += w[i] * fabs(vec[i]);
        else
            for (i = 0; i < n; i++)
                ret += fabs(vec[i]);
    }
    return ret;
}

static double diff_norm(unsigned n, const double *x, const double *oldx, const double *w, const double *scale_min, const double *scale_max)
{
    unsigned i;
    double ret = 0;
    if (scale_min && scale_max) {
        if (w)
            for (i = 0; i < n; i++)
                ret += w[i] * fabs(sc(x[i], scale_min[i], scale_max[i]) - sc(oldx[i], scale_min[i], scale_max[i]));
        else
            for (i = 0; i < n; i++)
                ret += fabs(sc(x[i], scale_min[i], scale_max[i]) - sc(oldx[i], scale_min[i], scale_max[i]));
    } else {
        if (w)
            for (i = 0; i < n; i++)
                ret += w[i] * fabs(x[i] - oldx[i]);
        else
            for (i = 0; i < n; i++)
                ret += fabs(x[i] - oldx[i]);
    }
    return ret;
}

static int relstop(double vold, double vnew, double reltol, double abstol)
{
    if (nlopt_isinf(vold))
        return 0;
    return (fabs(vnew - vold) < abstol || fabs(vnew - vold) < reltol * (fabs(vnew) + fabs(vold)) * 0.5 || (reltol > 0 && vnew == vold));        /* catch vnew == vold == 0 */
}

int nlopt_stop_ftol(const nlopt_stopping * s, double f, double oldf)
{
    return (relstop(oldf, f, s->ftol_rel, s->ftol_abs));
}

int nlopt_stop_f(const nlopt_stopping * s, double f, double oldf)
{
    return (f <= s->minf_max || nlopt_stop_ftol(s, f, oldf));
}

int nlopt_stop_x(const nlopt_stopping * s, const double *x, const double *oldx)
{
    unsigned i;
    if (diff_norm(s->n, x, oldx, s->x_weights, NULL, NULL) < s->xtol_rel * vector_norm(s->n, x, s->x_weights, NULL, NULL))
        return 1;
    if (!s->xtol_abs) return 0;
    for (i = 0; i < s->n; ++i)
        if (fabs(x[i] - oldx[i]) >= s->xtol_abs[i])
            return 0;
    return 1;
}

int nlopt_stop_dx(const nlopt_stopping * s, const double *x, const double *dx)
{
    unsigned i;
    if (vector_norm(s->n, dx, s->x_weights, NULL, NULL) < s->xtol_rel * vector_norm(s->n, x, s->x_weights, NULL, NULL))
        return 1;
    if (!s->xtol_abs) return 0;
    for (i = 0; i < s->n; ++i)
        if (fabs(dx[i]) >= s->xtol_abs[i])
            return 0;
    return 1;
}

/* some of the algorithms rescale x to a unit hypercube, so we need to
   scale back before we can compare to the tolerances */
int nlopt_stop_xs(const nlopt_stopping * s, const double *xs, const double *oldxs, const double *scale_min, const double *scale_max)
{
    unsigned i;
    if (diff_norm(s->n, xs, oldxs, s->x_weights, scale_min, scale_max) < s->xtol_rel * vector_norm(s->n, xs, s->x_weights, scale_min, scale_max))
        return 1;
    if (!s->xtol_abs) return 0;
    for (i = 0; i < s->n; ++i)
        if (fabs(sc(xs[i], scale_min[i], scale_max[i]) - sc(oldxs[i], scale_min[i], scale_max[i])) >= s->xtol_abs[i])
            return 0;
    return 1;
}

int nlopt_stop_evals(const nlopt_stopping * s)
{
    return (s->maxeval > 0 && *(s->nevals_p) >= s->maxeval);
}

int nlopt_stop_time_(double start, double maxtime)
{
    return (maxtime > 0 && nlopt_seconds() - start >= maxtime);
}

int nlopt_stop_time(const nlopt_stopping * s)
{
    return nlopt_stop_time_(s->start, s->maxtime);
}

int nlopt_stop_evalstime(const nlopt_stopping * stop)
{
    return nlopt_stop_evals(stop) || nlopt_stop_time(stop);
}

int nlopt_stop_forced(const nlopt_stopping * stop)
{
    return stop->force_stop && *(stop->force_stop);
}

unsigned nlopt_count_constraints(unsigned p, const nlopt_constraint * c)
{
    unsigned i, count = 0;
    for (i = 0; i < p; ++i)
        count += c[i].m;
    return count;
}

unsigned nlopt_max_constraint_dim(unsigned p, const nlopt_constraint * c)
{
    unsigned i, max_dim = 0;
    for (i = 0; i < p; ++i)
        if (c[i].m > max_dim)
            max_dim = c[i].m;
    return max_dim;
}

void nlopt_eval_constraint(double *result, double *grad, const nlopt_constraint * c, unsigned n, const double *x)
{
    if (c->f)
        result[0] = c->f(n, x, grad, c->f_data);
    else
        c->mf(c->m, result, n, x, grad, c->f_data);
}

char *nlopt_vsprintf(char *p, const char *format, va_list ap)
{
    size_t len = strlen(format) + 128;
    int ret;
    char *q;

    q = (char *) realloc(p, len);
    if (!q) {                   /* out of memory: do without the message */
        free(p);
        return NULL;
    }
    p = q;

    /* TODO: check HAVE_VSNPRINTF, and fallback to vsprintf otherwise */
    while ((ret = vsnprintf(p, len, format, ap)) < 0 || (size_t) ret >= len) {
        /* C99 vsnprintf returns the required number of bytes (excluding \0)
           if the buffer is too small; older versions (e.g. MS) return -1 */
        len = ret >= 0 ? (size_t) (ret + 1) : (len * 3) >> 1;
        q = (char *) realloc(p, len);
        if (!q) {
            free(p);
            return NULL;
        }
        p = q;
    }
    return p;
}

void nlopt_stop_msg(const nlopt_stopping * s, const char *format, ...)
{
    va_list ap;
    if (s->stop_msg) {
        va_start(ap, format);
        *(s->stop_msg) = nlopt_vsprintf(*(s->stop_msg), format, ap);
        va_end(ap);
    }
}

/*************************************************************************/

int nlopt_isinf(double x)
{
    return (fabs(x) >= HUGE_VAL * 0.99)
#if defined(HAVE_ISINF)
        || isinf(x)
#else
        || (!nlopt_isnan(x) && nlopt_isnan(x - x))
#endif
        ;
}

int nlopt_isfinite(double x)
{
    return (fabs(x) <= DBL_MAX)
#if defined(HAVE_ISFINITE)
        || isfinite(x)
#elif defined(_WIN32)
        || _finite(x)
#endif
        ;
}

int nlopt_istiny(double x)
{
    if (x == 0.0)
        return 1;
    else {
#if defined(HAVE_FPCLASSIFY)
        return fpclassify(x) == FP_SUBNORMAL;
#elif defined(_WIN32)
        int c = _fpclass(x);
        return c == _FPCLASS_ND || c == _FPCLASS_PD;
#else
        return fabs(x) < 2.2250738585072014e-308;       /* assume IEEE 754 double */
#endif
    }
}

int nlopt_isnan(double x)
{
#if defined(HAVE_ISNAN)
    return isnan(x);
#elif defined(_WIN32)
    return _isnan(x);
#else
    return (x != x);            /* might fail with aggressive optimization */
#endif
}
