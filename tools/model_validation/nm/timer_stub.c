double nlopt_seconds(void) { return 0.0; }
unsigned long nlopt_time_seed(void) { return 0; }
