/* differential harness: runs nldrmd_minimize (or nldrmd_minimize_ with psi) and prints protocol lines for `nlopt_model nm`.
   usage: harness seed n fkind maxeval stopval ftol_rel ftol_abs xtol_rel xtol_abs forceat nanat inner psi bounded */
#include <stdio.h>
#include <stdlib.h>
#include <string.h>
#include <math.h>
#include <stdint.h>
#include "nlopt-util.h"
#include "neldermead.h"

static int fkind, forceat, nanat, count = 0, force_flag = 0;
static uint64_t rng;
static double rnd(void) { rng = rng * 6364136223846793005ULL + 1442695040888963407ULL; return (double)(rng >> 11) / 9007199254740992.0; }

static void hex(double d) { uint64_t u; memcpy(&u, &d, 8); printf("%016llx", (unsigned long long) u); }
static void hexvec(int n, const double *x) { int i; if (n == 0) printf("-"); for (i = 0; i < n; ++i) { if (i) printf(","); hex(x[i]); } }

static double obj(unsigned n, const double *x, double *grad, void *d)
{
    double f = 0; unsigned i;
    (void) grad; (void) d;
    ++count;
    switch (fkind) {
    case 0: for (i = 0; i < n; ++i) f += (x[i] - 0.3 * (i + 1)) * (x[i] - 0.3 * (i + 1)); break;
    case 1: for (i = 0; i + 1 < n; ++i) f += 100 * (x[i+1] - x[i]*x[i]) * (x[i+1] - x[i]*x[i]) + (1 - x[i]) * (1 - x[i]); if (n == 1) f = (1-x[0])*(1-x[0]); break;
    case 2: for (i = 0; i < n; ++i) f += fabs(x[i]); break;
    case 3: f = 1.0; break;                                            /* constant: ties everywhere */
    case 4: for (i = 0; i < n; ++i) f += floor(fabs(x[i]) * 2); break; /* plateaus: many ties */
    case 5: f = floor(rnd() * 4); break;                               /* random small integers */
    case 6: f = rnd() - 0.5; break;                                    /* noise */
    case 7: for (i = 0; i < n; ++i) f += x[i]; break;                  /* linear, unbounded below */
    case 8: for (i = 0; i < n; ++i) f -= x[i] * x[i]; break;           /* concave */
    case 9: f = (rnd() < 0.3) ? 0.0 : ((rnd() < 0.5) ? -0.0 : floor(rnd() * 3) - 1); break; /* signed zeros */
    }
    if (nanat > 0 && count == nanat) f = NAN;
    if (forceat > 0 && count == forceat) force_flag = 1;
    printf("ev "); hexvec((int) n, x); printf(" "); hex(f); printf(" %d\n", (forceat > 0 && count == forceat) ? 1 : 0);
    return f;
}

int main(int argc, char **argv)
{
    int n, maxeval, inner, bounded, i, nevals = 0;
    double stopval, ftol_rel, ftol_abs, xtol_rel, xtol_abs_v, psi, minf, fdiff;
    double *x, *lb, *ub, *xstep, *xtol_abs = NULL, *scratch;
    nlopt_stopping stop;
    nlopt_result ret;
    if (argc < 15) return 2;
    rng = strtoull(argv[1], 0, 10) * 2654435761ULL + 12345;
    n = atoi(argv[2]); fkind = atoi(argv[3]); maxeval = atoi(argv[4]);
    stopval = atof(argv[5]); ftol_rel = atof(argv[6]); ftol_abs = atof(argv[7]); xtol_rel = atof(argv[8]);
    xtol_abs_v = atof(argv[9]); forceat = atoi(argv[10]); nanat = atoi(argv[11]); inner = atoi(argv[12]);
    psi = atof(argv[13]); bounded = atoi(argv[14]);
    x = malloc(sizeof(double) * (n + 1)); lb = malloc(sizeof(double) * (n + 1)); ub = malloc(sizeof(double) * (n + 1));
    xstep = malloc(sizeof(double) * (n + 1));
    for (i = 0; i < n; ++i) {
        x[i] = floor((rnd() * 4 - 2) * 8) / 8;
        xstep[i] = (rnd() < 0.5 ? 1 : -1) * (0.25 + floor(rnd() * 4) / 4);
        if (bounded) { lb[i] = x[i] - floor(rnd() * 3) * 0.5; ub[i] = x[i] + floor(rnd() * 3) * 0.5; }
        else { lb[i] = -HUGE_VAL; ub[i] = HUGE_VAL; }
    }
    if (xtol_abs_v >= 0) { xtol_abs = malloc(sizeof(double) * (n + 1)); for (i = 0; i < n; ++i) xtol_abs[i] = xtol_abs_v; }
    memset(&stop, 0, sizeof(stop));
    stop.n = (unsigned) n; stop.minf_max = stopval; stop.ftol_rel = ftol_rel; stop.ftol_abs = ftol_abs;
    stop.xtol_rel = xtol_rel; stop.xtol_abs = xtol_abs; stop.x_weights = NULL; stop.nevals_p = &nevals;
    stop.maxeval = maxeval; stop.maxtime = 0; stop.start = 0; stop.force_stop = &force_flag; stop.stop_msg = NULL;

    printf("cfg n=%d maxeval=%d stopval=", n, maxeval); hex(stopval);
    printf(" ftol_rel="); hex(ftol_rel); printf(" ftol_abs="); hex(ftol_abs); printf(" xtol_rel="); hex(xtol_rel);
    printf(" xtol_abs="); if (xtol_abs) hexvec(n, xtol_abs); else printf("-");
    printf(" x0="); hexvec(n, x);
    if (inner) {
        minf = floor(rnd() * 4);   /* pretend f(x0) */
        nevals = (int) floor(rnd() * 3);
        printf(" minf0="); hex(minf); printf(" psi="); hex(psi); printf(" nevals0=%d", nevals);
    }
    printf("\n");
    if (inner) {
        int n0 = nevals;
        scratch = malloc(sizeof(double) * ((n+1)*(n+1) + 2*n));
        ret = nldrmd_minimize_(n, obj, NULL, lb, ub, x, &minf, xstep, &stop, psi, scratch, &fdiff);
        nevals -= n0;
    } else {
        minf = HUGE_VAL;
        ret = nldrmd_minimize(n, obj, NULL, lb, ub, x, &minf, xstep, &stop);
    }
    printf("expect %d %d ", (int) ret, nevals); hexvec(n, x); printf(" "); hex(minf); printf(" 0\n");
    return 0;
}
