#!/usr/bin/env python3
"""differential test: C nldrmd vs `nlopt_model nm`.  usage: diff.py <ncases> [seed0]"""
import random, subprocess, sys, collections
N = int(sys.argv[1]); seed0 = int(sys.argv[2]) if len(sys.argv) > 2 else 0
def ask(lines, endline="end"):
    inp = "\n".join(lines + [endline]) + "\n"
    o = subprocess.run(["/var/tmp/lw_nm/.lake/build/bin/nlopt_model", "nm"], input=inp, capture_output=True, text=True).stdout.strip().split("\n")
    return o[-1].strip()
stats = collections.Counter(); bad = 0
for k in range(N):
    r = random.Random(seed0 + k)
    n = r.choice([1, 1, 2, 2, 3, 4, 6])
    fk = r.randrange(10)
    maxeval = r.choice([0, 0, 1, 2, 3, 5, 8, 13, 40, 200])
    if maxeval == 0: maxeval = 400
    stopval = r.choice(["-1e300", "-1e300", "0.5", "0", "-3", "2.5", "1e-3"])
    ftol_rel = r.choice(["0", "0", "1e-2", "1e-6", "0.5"]); ftol_abs = r.choice(["0", "0", "1e-3", "0.5", "1"])
    xtol_rel = r.choice(["0", "1e-2", "1e-4", "1e-8", "0.3"]); xtol_abs = r.choice(["-1", "-1", "0", "1e-3", "0.3"])
    forceat = r.choice([0, 0, 0, 1, 2, 3, 5, 9, 20]); nanat = r.choice([0, 0, 0, 0, 0, 1, 2, 4, 7])
    inner = 1 if r.random() < 0.3 else 0
    psi = r.choice(["0", "0.1", "0.5", "0.01", "1"]) if inner else "0"
    bounded = r.choice([0, 0, 1])
    if maxeval == 0 and ftol_rel == "0" and ftol_abs == "0" and xtol_rel == "0" and float(xtol_abs) <= 0: maxeval = 300
    args = [str(seed0 + k), str(n), str(fk), str(maxeval), stopval, ftol_rel, ftol_abs, xtol_rel, xtol_abs, str(forceat), str(nanat), str(inner), psi, str(bounded)]
    try:
        out = subprocess.run(["/var/tmp/lw_nm/ctest/harness"] + args, capture_output=True, text=True, timeout=20).stdout.strip().split("\n")
    except subprocess.TimeoutExpired:
        stats["timeout"] += 1; continue
    if not out[-1].startswith("expect"):
        stats["crash"] += 1; print("CRASH", args); continue
    exp = out[-1][7:]; lines = out[:-1]
    got = ask(lines)
    how = "plain"
    if got != exp and got.endswith(" 1") and exp.split()[0] in ("4", "-1") and got.split()[1] == exp.split()[1]:
        if exp.split()[1] == "0": lines = [lines[0] + " stuck0=1"] + lines[1:]
        got = ask(lines, "end 1"); how = "stuck"
    nan = nanat > 0 and nanat <= int(exp.split()[1]) + (1 if inner else 0)
    if got != exp:
        if nan: stats["mismatch-with-nan"] += 1; print("NANMISMATCH", " ".join(args), "\n  C    :", exp, "\n  model:", got)
        else:
            bad += 1; print("MISMATCH", " ".join(args), "\n  C    :", exp, "\n  model:", got)
    else:
        stats[(how, exp.split()[0], "nan" if nan else "")] += 1
print("bad", bad); [print(k, v) for k, v in sorted(stats.items(), key=str)]
