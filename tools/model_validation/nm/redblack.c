/* Copyright (c) 2007-2014 Massachusetts Institute of Technology
 *
 * Permission is hereby granted, free of charge, to any person obtaining
 * a copy of this software and associated documentation files (the
 * "Software"), to deal in the Software without restriction, including
 * without limitation the rights to use, copy, modify, merge, publish,
 * distribute, sublicense, and/or sell copies of the Software, and to
 * permit persons to whom the Software is furnished to do so, subject to
 * the following conditions:
 * 
 * The above copyright notice and this permission notice shall be
 * included in all copies or substantial portions of the Software.
 * 
 * THE SOFTWARE IS PROVIDED "AS IS", WITHOUT WARRANTY OF ANY KIND,
 * EXPRESS OR IMPLIED, INCLUDING BUT NOT LIMITED TO THE WARRANTIES OF
 * MERCHANTABILITY, FITNESS FOR A PARTICULAR PURPOSE AND
 * NONINFRINGEMENT. IN NO EVENT SHALL THE AUTHORS OR COPYRIGHT HOLDERS BE
 * LIABLE FOR ANY CLAIM, DAMAGES OR OTHER LIABILITY, WHETHER IN AN ACTION
 * OF CONTRACT, TORT OR OTHERWISE, ARISING FROM, OUT OF OR IN CONNECTION
 * WITH THE SOFTWARE OR THE USE OR OTHER DEALINGS IN THE SOFTWARE. 
 */

/* simple implementation of red-black trees optimized for use with DIRECT */

#include <stddef.h>
#include <stdlib.h>
#include "redblack.h"

/* it is convenient to use an explicit node for NULL nodes ... we need
   to be careful never to change this node indirectly via one of our
   pointers!  */
rb_node nil = { &nil, &nil, &nil, 0, BLACK };

#define NIL (&nil)

void nlopt_rb_tree_init(rb_tree * t, rb_compare compare)
{
    t->compare = compare;
    t->root = NIL;
    t->N = 0;
}

static void destroy(rb_node * n)
{
    if (n != NIL) {
        destroy(n->l);
        destroy(n->r);
        free(n);
    }
}

void nlopt_rb_tree_destroy(rb_tree * t)
{
    destroy(t->root);
    t->root = NIL;
}

void nlopt_rb_tree_destroy_with_keys(rb_tree * t)
{
    rb_node *n = nlopt_rb_tree_min(t);
    while (n) {
        free(n->k);
        n->k = NULL;
        n = nlopt_rb_tree_succ(n);
    }
    nlopt_rb_tree_destroy(t);
}

static void rotate_left(rb_node * p, rb_tree * t)
{
    rb_node *n = p->r;          /* must be non-NIL */
    p->r = n->l;
    n->l = p;
    if (p->p != NIL) {
        if (p == p->p->l)
            p->p->l = n;
        else
            p->p->r = n;
    } else
        t->root = n;
    n->p = p->p;
    p->p = n;
    if (p->r != NIL)
        p->r->p = p;
}

static void rotate_right(rb_node * p, rb_tree * t)
{
    rb_node *n = p->l;          /* must be non-NIL */
    p->l = n->r;
    n->r = p;
    if (p->p != NIL) {
        if (p == p->p->l)
            p->p->l = n;
        else
            p->p->r = n;
    } else
        t->root = n;
    n->p = p->p;
    p->p = n;
    if (p->l != NIL)
        p->l->p = p;
}

static void insert_node(rb_tree * t, rb_node * n)
{
    rb_compare compare = t->compare;
    rb_key k = n->k;
    rb_node *p = t->root;
    n->c = RED;
    n->p = n->l = n->r = NIL;
    t->N++;
    if (p == NIL) {
        t->root = n;
        n->c = BLACK;
        return;
    }
    /* insert (RED) node into tree */
    while (1) {
        if (compare(k, p->k) <= 0) {    /* k <= p->k */
            if (p->l != NIL)
                p = p->l;
            else {
                p->l = n;
                n->p = p;
                break;
            }
        } else {
            if (p->r != NIL)
                p = p->r;
            else {
                p->r = n;
                n->p = p;
                break;
            }
        }
    }
  fixtree:
    if (n->p->c == RED) {       /* red cannot have red child */
        rb_node *u = p == p->p->l ? p->p->r : p->p->l;
        if (u != NIL && u->c == RED) {
            p->c = u->c = BLACK;
            n = p->p;
            if ((p = n->p) != NIL) {
                n->c = RED;
                goto fixtree;
            }
        } else {
            if (n == p->r && p == p->p->l) {
                rotate_left(p, t);
                p = n;
                n = n->l;
            } else if (n == p->l && p == p->p->r) {
                rotate_right(p, t);
                p = n;
                n = n->r;
            }
            p->c = BLACK;
            p->p->c = RED;
            if (n == p->l && p == p->p->l)
                rotate_right(p->p, t);
            else if (n == p->r && p == p->p->r)
                rotate_left(p->p, t);
        }

    }
}

rb_node *nlopt_rb_tree_insert(rb_tree * t, rb_key k)
{
    rb_node *n = (rb_node *) malloc(sizeof(rb_node));
    if (!n)
        return NULL;
    n->k = k;
    insert_node(t, n);
    return n;
}

static int check_node(rb_node * n, int *nblack, rb_tree * t)
{
    int nbl, nbr;
    rb_compare compare = t->compare;
    if (n == NIL) {
        *nblack = 0;
        return 1;
    }
    if (n->r != NIL && n->r->p != n)
        return 0;
    if (n->r != NIL && compare(n->r->k, n->k) < 0)
        return 0;
    if (n->l != NIL && n->l->p != n)
        return 0;
    if (n->l != NIL && compare(n->l->k, n->k) > 0)
        return 0;
    if (n->c == RED) {
        if (n->r != NIL && n->r->c == RED)
            return 0;
        if (n->l != NIL && n->l->c == RED)
            return 0;
    }
    if (!(check_node(n->r, &nbl, t) && check_node(n->l, &nbr, t)))
        return 0;
    if (nbl != nbr)
        return 0;
    *nblack = nbl + (n->c == BLACK);
    return 1;
}

int nlopt_rb_tree_check(rb_tree * t)
{
    int nblack;
    if (nil.c != BLACK)
        return 0;
    if (nil.p != NIL || nil.r != NIL || nil.l != NIL)
        return 0;
    if (t->root == NIL)
        return 1;
    if (t->root->c != BLACK)
        return 0;
    return check_node(t->root, &nblack, t);
}

rb_node *nlopt_rb_tree_find(rb_tree * t, rb_key k)
{
    rb_compare compare = t->compare;
    rb_node *p = t->root;
    while (p != NIL) {
        int comp = compare(k, p->k);
        if (!comp)
            return p;
        p = comp <= 0 ? p->l : p->r;
    }
    return NULL;
}

/* find greatest point in subtree p that is <= k */
static rb_node *find_le(rb_node * p, rb_key k, rb_tree * t)
{
    rb_compare compare = t->compare;
    while (p != NIL) {
        if (compare(p->k, k) <= 0) {    /* p->k <= k */
            rb_node *r = find_le(p->r, k, t);
            if (r)
                return r;
            else
                return p;
        } else                  /* p->k > k */
            p = p->l;
    }
    return NULL;                /* k < everything in subtree */
}

/* find greatest point in t <= k */
rb_node *nlopt_rb_tree_find_le(rb_tree * t, rb_key k)
{
    return find_le(t->root, k, t);
}

/* find greatest point in subtree p that is < k */
static rb_node *find_lt(rb_node * p, rb_key k, rb_tree * t)
{
    rb_compare compare = t->compare;
    while (p != NIL) {
        if (compare(p->k, k) < 0) {     /* p->k < k */
            rb_node *r = find_lt(p->r, k, t);
            if (r)
                return r;
            else
                return p;
        } else                  /* p->k >= k */
            p = p->l;
    }
    return NULL;                /* k <= everything in subtree */
}

/* find greatest point in t < k */
rb_node *nlopt_rb_tree_find_lt(rb_tree * t, rb_key k)
{
    return find_lt(t->root, k, t);
}

/* find least point in subtree p that is > k */
static rb_node *find_gt(rb_node * p, rb_key k, rb_tree * t)
{
    rb_compare compare = t->compare;
    while (p != NIL) {
        if (compare(p->k, k) > 0) {     /* p->k > k */
            rb_node *l = find_gt(p->l, k, t);
            if (l)
                return l;
            else
                return p;
        } else                  /* p->k <= k */
            p = p->r;
    }
    return NULL;                /* k >= everything in subtree */
}

/* find least point in t > k */
rb_node *nlopt_rb_tree_find_gt(rb_tree * t, rb_key k)
{
    return find_gt(t->root, k, t);
}

rb_node *nlopt_rb_tree_min(rb_tree * t)
{
    rb_node *n = t->root;
    while (n != NIL && n->l != NIL)
        n = n->l;
    return (n == NIL ? NULL : n);
}

rb_node *nlopt_rb_tree_max(rb_tree * t)
{
    rb_node *n = t->root;
    while (n != NIL && n->r != NIL)
        n = n->r;
    return (n == NIL ? NULL : n);
}

rb_node *nlopt_rb_tree_succ(rb_node * n)
{
    if (!n)
        return NULL;
    if (n->r == NIL) {
        rb_node *prev;
        do {
            prev = n;
            n = n->p;
        } while (prev == n->r && n != NIL);
        return n == NIL ? NULL : n;
    } else {
        n = n->r;
        while (n->l != NIL)
            n = n->l;
        return n;
    }
}

rb_node *nlopt_rb_tree_pred(rb_node * n)
{
    if (!n)
        return NULL;
    if (n->l == NIL) {
        rb_node *prev;
        do {
            prev = n;
            n = n->p;
        } while (prev == n->l && n != NIL);
        return n == NIL ? NULL : n;
    } else {
        n = n->l;
        while (n->r != NIL)
            n = n->r;
        return n;
    }
}

rb_node *nlopt_rb_tree_remove(rb_tree * t, rb_node * n)
{
    rb_key k = n->k;
    rb_node *m, *mp;
    if (n->l != NIL && n->r != NIL) {
        rb_node *lmax = n->l;
        while (lmax->r != NIL)
            lmax = lmax->r;
        n->k = lmax->k;
        n = lmax;
    }
    m = n->l != NIL ? n->l : n->r;
    if (n->p != NIL) {
        if (n->p->r == n)
            n->p->r = m;
        else
            n->p->l = m;
    } else
        t->root = m;
    mp = n->p;
    if (m != NIL)
        m->p = mp;
    if (n->c == BLACK) {
        if (m->c == RED)
            m->c = BLACK;
        else {
          deleteblack:
            if (mp != NIL) {
                rb_node *s = m == mp->l ? mp->r : mp->l;
                if (s->c == RED) {
                    mp->c = RED;
                    s->c = BLACK;
                    if (m == mp->l)
                        rotate_left(mp, t);
                    else
                        rotate_right(mp, t);
                    s = m == mp->l ? mp->r : mp->l;
                }
                if (mp->c == BLACK && s->c == BLACK && s->l->c == BLACK && s->r->c == BLACK) {
                    if (s != NIL)
                        s->c = RED;
                    m = mp;
                    mp = m->p;
                    goto deleteblack;
                } else if (mp->c == RED && s->c == BLACK && s->l->c == BLACK && s->r->c == BLACK) {
                    if (s != NIL)
                        s->c = RED;
                    mp->c = BLACK;
                } else {
                    if (m == mp->l && s->c == BLACK && s->l->c == RED && s->r->c == BLACK) {
                        s->c = RED;
                        s->l->c = BLACK;
                        rotate_right(s, t);
                        s = m == mp->l ? mp->r : mp->l;
                    } else if (m == mp->r && s->c == BLACK && s->r->c == RED && s->l->c == BLACK) {
                        s->c = RED;
                        s->r->c = BLACK;
                        rotate_left(s, t);
                        s = m == mp->l ? mp->r : mp->l;
                    }
                    s->c = mp->c;
                    mp->c = BLACK;
                    if (m == mp->l) {
                        s->r->c = BLACK;
                        rotate_left(mp, t);
                    } else {
                        s->l->c = BLACK;
                        rotate_right(mp, t);
                    }
                }
            }
        }
    }
    t->N--;
    n->k = k;                   /* n may have changed during remove */
    return n;                   /* the node that was deleted may be different from initial n */
}

rb_node *nlopt_rb_tree_resort(rb_tree * t, rb_node * n)
{
    n = nlopt_rb_tree_remove(t, n);
    insert_node(t, n);
    return n;
}

/* shift all key pointers by kshift ... this is useful when the keys
   are pointers into another array, that has been resized with realloc */
static void shift_keys(rb_node * n, ptrdiff_t kshift)
{                               /* assumes n != NIL */
    n->k += kshift;
    if (n->l != NIL)
        shift_keys(n->l, kshift);
    if (n->r != NIL)
        shift_keys(n->r, kshift);
}

void nlopt_rb_tree_shift_keys(rb_tree * t, ptrdiff_t kshift)
{
    if (t->root != NIL)
        shift_keys(t->root, kshift);
}
