/* Copyright (c) 2007-2014 Massachusetts Institute of Technology
 *
 * Permission is hereby granted, free of charge, to any person obtaining
 * a copy of this software and associated documentation files (the
 * "Software"), to deal in the Software without restriction, including
 * without limitation the rights to use, copy, modify, merge, publish,
 * distribute, sublicense, and/or sell copies of the Software, and to
 * permit persons to whom the Software is furnished to do so, subject to
 * the following conditions:
 * 
 * The above copyright notice and this permission notice shall be
 * included in all copies or substantial portions of the Software.
 * 
 * THE SOFTWARE IS PROVIDED "AS IS", WITHOUT WARRANTY OF ANY KIND,
 * EXPRESS OR IMPLIED, INCLUDING BUT NOT LIMITED TO THE WARRANTIES OF
 * MERCHANTABILITY, FITNESS FOR A PARTICULAR PURPOSE AND
 * NONINFRINGEMENT. IN NO EVENT SHALL THE AUTHORS OR COPYRIGHT HOLDERS BE
 * LIABLE FOR ANY CLAIM, DAMAGES OR OTHER LIABILITY, WHETHER IN AN ACTION
 * OF CONTRACT, TORT OR OTHERWISE, ARISING FROM, OUT OF OR IN CONNECTION
 * WITH THE SOFTWARE OR THE USE OR OTHER DEALINGS IN THE SOFTWARE. 
 */

#include <math.h>
#include <stdlib.h>
#include <string.h>

#include "neldermead.h"
#include "redblack.h"

/* Nelder-Mead simplex algorithm, used as a subroutine for the Rowan's
   subplex algorithm.  Modified to handle bound constraints ala
   Richardson and Kuester (1973), as mentioned below. */

/* heuristic "strategy" constants: */
static const double alpha = 1, beta = 0.5, gamm = 2, delta = 0.5;

/* sort order in red-black tree: keys [f(x), x] are sorted by f(x) */
static int simplex_compare(double *k1, double *k2)
{
     if (*k1 < *k2) return -1;
     if (*k1 > *k2) return +1;
     return (int)(k1 - k2); /* tie-breaker */
}

/* return 1 if a and b are approximately equal relative to floating-point
   precision, 0 otherwise */
static int close(double a, double b)
{
     return (fabs(a - b) <= 1e-13 * (fabs(a) + fabs(b)));
}

/* Perform the reflection xnew = c + scale * (c - xold),
   returning 0 if xnew == c or xnew == xold (coincident points), 1 otherwise.

   The reflected point xnew is "pinned" to the lower and upper bounds
   (lb and ub), as suggested by J. A. Richardson and J. L. Kuester,
   "The complex method for constrained optimization," Commun. ACM
   16(8), 487-489 (1973).  This is probably a suboptimal way to handle
   bound constraints, but I don't know a better way.  The main danger
   with this is that the simplex might collapse into a
   lower-dimensional hyperplane; this danger can be ameliorated by
   restarting (as in subplex), however. */
static int reflectpt(int n, double *xnew, 
		     const double *c, double scale, const double *xold,
		     const double *lb, const double *ub)
{
     int equalc = 1, equalold = 1, i;
     for (i = 0; i < n; ++i) {
	  double newx = c[i] + scale * (c[i] - xold[i]);
	  if (newx < lb[i]) newx = lb[i];
	  if (newx > ub[i]) newx = ub[i];
	  equalc = equalc && close(newx, c[i]);
	  equalold = equalold && close(newx, xold[i]);
	  xnew[i] = newx;
     }
     return !(equalc || equalold);
}

#define CHECK_EVAL(xc,fc) 						  \
 ++ *(stop->nevals_p);							  \
 if (nlopt_stop_forced(stop)) { ret=NLOPT_FORCED_STOP; goto done; }        \
 if ((fc) <= *minf) {							  \
   *minf = (fc); memcpy(x, (xc), n * sizeof(double));			  \
   if (*minf < stop->minf_max) { ret=NLOPT_MINF_MAX_REACHED; goto done; } \
 }									  \
 if (nlopt_stop_evals(stop)) { ret=NLOPT_MAXEVAL_REACHED; goto done; }	  \
 if (nlopt_stop_time(stop)) { ret=NLOPT_MAXTIME_REACHED; goto done; }

/* Internal version of nldrmd_minimize, intended to be used as
   a subroutine for the subplex method.  Three differences compared
   to nldrmd_minimize:

   *minf should contain the value of f(x)  (so that we don't have to
   re-evaluate f at the starting x).

   if psi > 0, then it *replaces* xtol and ftol in stop with the condition
   that the simplex diameter |xl - xh| must be reduced by a factor of psi 
   ... this is for when nldrmd is used within the subplex method; for
   ordinary termination tests, set psi = 0. 

   scratch should contain an array of length >= (n+1)*(n+1) + 2*n,
   used as scratch workspace. 

   On output, *fdiff will contain the difference between the high
   and low function values of the last simplex. */
nlopt_result nldrmd_minimize_(int n, nlopt_func f, void *f_data,
			     const double *lb, const double *ub, /* bounds */
			     double *x, /* in: initial guess, out: minimizer */
			     double *minf,
			     const double *xstep, /* initial step sizes */
			     nlopt_stopping *stop,
			     double psi, double *scratch,
			     double *fdiff)
{
     double *pts; /* (n+1) x (n+1) array of n+1 points plus function val [0] */
     double *c; /* centroid * n */
     double *xcur; /* current point */
     rb_tree t; /* red-black tree of simplex, sorted by f(x) */
     int i, j;
     double ninv = 1.0 / n;
     nlopt_result ret = NLOPT_SUCCESS;
     double init_diam = 0;

     pts = scratch;
     c = scratch + (n+1)*(n+1);
     xcur = c + n;

     nlopt_rb_tree_init(&t, simplex_compare);

     *fdiff = HUGE_VAL;

     /* initialize the simplex based on the starting xstep */
     memcpy(pts+1, x, sizeof(double)*n);
     pts[0] = *minf;
     if (*minf < stop->minf_max) { ret=NLOPT_MINF_MAX_REACHED; goto done; }
     for (i = 0; i < n; ++i) {
	  double *pt = pts + (i+1)*(n+1);
	  memcpy(pt+1, x, sizeof(double)*n);
	  pt[1+i] += xstep[i];
	  if (pt[1+i] > ub[i]) {
	       if (ub[i] - x[i] > fabs(xstep[i]) * 0.1)
		    pt[1+i] = ub[i];
	       else /* ub is too close to pt, go in other direction */
		    pt[1+i] = x[i] - fabs(xstep[i]);
	  }
	  if (pt[1+i] < lb[i]) {
	       if (x[i] - lb[i] > fabs(xstep[i]) * 0.1)
		    pt[1+i] = lb[i];
	       else {/* lb is too close to pt, go in other direction */
		    pt[1+i] = x[i] + fabs(xstep[i]);
		    if (pt[1+i] > ub[i]) /* go towards further of lb, ub */
			 pt[1+i] = 0.5 * ((ub[i] - x[i] > x[i] - lb[i] ?
					   ub[i] : lb[i]) + x[i]);
	       }
	  }
	  if (close(pt[1+i], x[i])) { 
              nlopt_stop_msg(stop, "starting step size led to simplex that was too small in dimension %d: %g is too close to x[%d]=%g",
                             i, pt[1+i], i, x[i]);
              ret=NLOPT_FAILURE;
              goto done; 
          }
	  pt[0] = f(n, pt+1, NULL, f_data);
	  CHECK_EVAL(pt+1, pt[0]);
     }

 restart:
     for (i = 0; i < n + 1; ++i)
	  if (!nlopt_rb_tree_insert(&t, pts + i*(n+1))) {
	       ret = NLOPT_OUT_OF_MEMORY;
	       goto done;
	  }

     while (1) {
	  rb_node *low = nlopt_rb_tree_min(&t);
	  rb_node *high = nlopt_rb_tree_max(&t);
	  double fl = low->k[0], *xl = low->k + 1;
	  double fh = high->k[0], *xh = high->k + 1;
	  double fr;

	  *fdiff = fh - fl;

	  if (init_diam == 0) /* initialize diam. for psi convergence test */
	       for (i = 0; i < n; ++i) init_diam += fabs(xl[i] - xh[i]);

	  if (psi <= 0 && nlopt_stop_ftol(stop, fl, fh)) {
	       ret = NLOPT_FTOL_REACHED;
	       goto done;
	  }

	  /* compute centroid ... if we cared about the performance of this,
	     we could do it iteratively by updating the centroid on
	     each step, but then we would have to be more careful about
	     accumulation of rounding errors... anyway n is unlikely to
	     be very large for Nelder-Mead in practical cases */
	  memset(c, 0, sizeof(double)*n);
	  for (i = 0; i < n + 1; ++i) {
	       double *xi = pts + i*(n+1) + 1;
	       if (xi != xh)
		    for (j = 0; j < n; ++j)
			 c[j] += xi[j];
	  }
	  for (i = 0; i < n; ++i) c[i] *= ninv;

	  /* x convergence check: find xcur = max radius from centroid */
		if (n > 0)
		{
	    memset(xcur, 0, sizeof(double)*n);
		}
	  for (i = 0; i < n + 1; ++i) {
               double *xi = pts + i*(n+1) + 1;
	       for (j = 0; j < n; ++j) {
		    double dx = fabs(xi[j] - c[j]);
		    if (dx > xcur[j]) xcur[j] = dx;
	       }
	  }
	  for (i = 0; i < n; ++i) xcur[i] += c[i];
	  if (psi > 0) {
	       double diam = 0;
	       for (i = 0; i < n; ++i) diam += fabs(xl[i] - xh[i]);
	       if (diam < psi * init_diam) {
		    ret = NLOPT_XTOL_REACHED;
		    goto done;
	       }
	  }
	  else if (nlopt_stop_x(stop, c, xcur)) {
	       ret = NLOPT_XTOL_REACHED;
	       goto done;
	  }

	  /* reflection */
	  if (!reflectpt(n, xcur, c, alpha, xh, lb, ub)) { 
	       ret=NLOPT_XTOL_REACHED; goto done; 
	  }
	  fr = f(n, xcur, NULL, f_data);
	  CHECK_EVAL(xcur, fr);

	  if (fr < fl) { /* new best point, expand simplex */
	       if (!reflectpt(n, xh, c, gamm, xh, lb, ub)) {
		    ret=NLOPT_XTOL_REACHED; goto done; 
	       }
	       fh = f(n, xh, NULL, f_data);
	       CHECK_EVAL(xh, fh);
	       if (fh >= fr) { /* expanding didn't improve */
		    fh = fr;
		    memcpy(xh, xcur, sizeof(double)*n);
	       }
	  }
	  else if (fr < nlopt_rb_tree_pred(high)->k[0]) { /* accept new point */
	       memcpy(xh, xcur, sizeof(double)*n);
	       fh = fr;
	  }
	  else { /* new worst point, contract */
	       double fc;
	       if (!reflectpt(n,xcur,c, fh <= fr ? -beta : beta, xh, lb,ub)) {
		    ret=NLOPT_XTOL_REACHED; goto done; 
	       }
	       fc = f(n, xcur, NULL, f_data);
	       CHECK_EVAL(xcur, fc);
	       if (fc < fr && fc < fh) { /* successful contraction */
		    memcpy(xh, xcur, sizeof(double)*n);
		    fh = fc;
	       }
	       else { /* failed contraction, shrink simplex */
		    nlopt_rb_tree_destroy(&t);
		    nlopt_rb_tree_init(&t, simplex_compare);
		    for (i = 0; i < n+1; ++i) {
			 double *pt = pts + i * (n+1);
			 if (pt+1 != xl) {
			      if (!reflectpt(n,pt+1, xl,-delta,pt+1, lb,ub)) {
				   ret = NLOPT_XTOL_REACHED;
				   goto done;
			      }
			      pt[0] = f(n, pt+1, NULL, f_data);
			      CHECK_EVAL(pt+1, pt[0]);
			 }
		    }
		    goto restart;
	       }
	  }

	  high->k[0] = fh;
	  nlopt_rb_tree_resort(&t, high);
     }
     
done:
     nlopt_rb_tree_destroy(&t);
     return ret;
}

nlopt_result nldrmd_minimize(int n, nlopt_func f, void *f_data,
			     const double *lb, const double *ub, /* bounds */
			     double *x, /* in: initial guess, out: minimizer */
			     double *minf,
			     const double *xstep, /* initial step sizes */
			     nlopt_stopping *stop)
{
     nlopt_result ret;
     double *scratch, fdiff;

     *minf = f(n, x, NULL, f_data);
     ++ *(stop->nevals_p);
     if (nlopt_stop_forced(stop)) return NLOPT_FORCED_STOP;
     if (*minf < stop->minf_max) return NLOPT_MINF_MAX_REACHED;
     if (nlopt_stop_evals(stop)) return NLOPT_MAXEVAL_REACHED;
     if (nlopt_stop_time(stop)) return NLOPT_MAXTIME_REACHED;

     scratch = (double*) malloc(sizeof(double) * ((n+1)*(n+1) + 2*n));
     if (!scratch) return NLOPT_OUT_OF_MEMORY;

     ret = nldrmd_minimize_(n, f, f_data, lb, ub, x, minf, xstep, stop,
			    0.0, scratch, &fdiff);
     free(scratch);
     return ret;
}
