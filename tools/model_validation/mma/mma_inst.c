/* Copyright (c) 2007-2014 Massachusetts Institute of Technology
 *
 * Permission is hereby granted, free of charge, to any person obtaining
 * a copy of this software and associated documentation files (the
 * "Software"), to deal in the Software without restriction, including
 * without limitation the rights to use, copy, modify, merge, publish,
 * distribute, sublicense, and/or sell copies of the Software, and to
 * permit persons to whom the Software is furnished to do so, subject to
 * the following conditions:
 *
 * The above copyright notice and this permission notice shall be
 * included in all copies or substantial portions of the Software.
 *
 * THE SOFTWARE IS PROVIDED "AS IS", WITHOUT WARRANTY OF ANY KIND,
 * EXPRESS OR IMPLIED, INCLUDING BUT NOT LIMITED TO THE WARRANTIES OF
 * MERCHANTABILITY, FITNESS FOR A PARTICULAR PURPOSE AND
 * NONINFRINGEMENT. IN NO EVENT SHALL THE AUTHORS OR COPYRIGHT HOLDERS BE
 * LIABLE FOR ANY CLAIM, DAMAGES OR OTHER LIABILITY, WHETHER IN AN ACTION
 * OF CONTRACT, TORT OR OTHERWISE, ARISING FROM, OUT OF OR IN CONNECTION
 * WITH THE SOFTWARE OR THE USE OR OTHER DEALINGS IN THE SOFTWARE.
 */

#include <stdlib.h>
#include <math.h>
#include <string.h>
#include <stdio.h>

#include "mma.h"
/* ---- instrumentation hooks (replay harness) ---- */
extern int vh_depth;
extern void vh_fail(int reti);
extern void vh_cons(int consF, int gvalNaN);
extern void vh_consg(unsigned i, int b);
extern void vh_rhoinf(int b);
#define VH (vh_depth == 1)

#include "nlopt-util.h"

THREADLOCAL unsigned mma_verbose = 0; /* > 0 for verbose output */

#define MIN(a,b) ((a) < (b) ? (a) : (b))
#define MAX(a,b) ((a) > (b) ? (a) : (b))

/* magic minimum value for rho in MMA ... the 2002 paper says it should
   be a "fixed, strictly positive `small' number, e.g. 1e-5"
   ... grrr, I hate these magic numbers, which seem like they
   should depend on the objective function in some way ... in particular,
   note that rho is dimensionful (= dimensions of objective function) */
#define MMA_RHOMIN 1e-5

/***********************************************************************/
/* function for MMA's dual solution of the approximate problem */

typedef struct {
     int count; /* evaluation count, incremented each call */
     unsigned n; /* must be set on input to dimension of x */
     const double *x, *lb, *ub, *sigma, *dfdx; /* arrays of length n */
     const double *dfcdx; /* m-by-n array of fc gradients */
     double fval, rho; /* must be set on input */
     const double *fcval, *rhoc; /* arrays of length m */
     double *xcur; /* array of length n, output each time */
     double gval, wval, *gcval; /* output each time (array length m) */
} dual_data;

static double sqr(double x) { return x * x; }

static double dual_func(unsigned m, const double *y, double *grad, void *d_)
{
     dual_data *d = (dual_data *) d_;
     unsigned n = d->n;
     const double *x = d->x, *lb = d->lb, *ub = d->ub, *sigma = d->sigma,
	  *dfdx = d->dfdx;
     const double *dfcdx = d->dfcdx;
     double rho = d->rho, fval = d->fval;
     const double *rhoc = d->rhoc, *fcval = d->fcval;
     double *xcur = d->xcur;
     double *gcval = d->gcval;
     unsigned i, j;
     double val;

     d->count++;

     val = d->gval = fval;
     d->wval = 0;
     for (i = 0; i < m; ++i)
	  val += y[i] * (gcval[i] = nlopt_isnan(fcval[i]) ? 0 : fcval[i]);

     for (j = 0; j < n; ++j) {
	  double u, v, dx, denominv, c, sigma2, dx2;

	  /* first, compute xcur[j] for y.  Because this objective is
	     separable, we can minimize over x analytically, and the minimum
	     dx is given by the solution of a quadratic equation:
	             u dx^2 + 2 v sigma^2 dx + u sigma^2 = 0
	     where u and v are defined by the sums below.  Because of
	     the definitions, it is guaranteed that |u/v| <= sigma,
	     and it follows that the only dx solution with |dx| <= sigma
	     is given by:
	             (v/u) sigma^2 (-1 + sqrt(1 - (u / v sigma)^2))
		     = (u/v) / (-1 - sqrt(1 - (u / v sigma)^2))
             (which goes to zero as u -> 0).  The latter expression
	     is less susceptible to roundoff error. */

	  if (sigma[j] == 0) { /* special case for lb[i] == ub[i] dims, dx=0 */
	       xcur[j] = x[j];
	       continue;
	  }

	  u = dfdx[j];
	  v = fabs(dfdx[j]) * sigma[j] + 0.5 * rho;
	  for (i = 0; i < m; ++i) if (!nlopt_isnan(fcval[i])) {
	       u += dfcdx[i*n + j] * y[i];
	       v += (fabs(dfcdx[i*n + j]) * sigma[j] + 0.5 * rhoc[i]) * y[i];
	  }
	  u *= (sigma2 = sqr(sigma[j]));
	  dx = (u/v) / (-1 - sqrt(fabs(1 - sqr(u/(v*sigma[j])))));
	  xcur[j] = x[j] + dx;
	  if (xcur[j] > ub[j]) xcur[j] = ub[j];
	  else if (xcur[j] < lb[j]) xcur[j] = lb[j];
	  if (xcur[j] > x[j]+0.9*sigma[j]) xcur[j] = x[j]+0.9*sigma[j];
	  else if (xcur[j] < x[j]-0.9*sigma[j]) xcur[j] = x[j]-0.9*sigma[j];
	  dx = xcur[j] - x[j];

	  /* function value: */
	  dx2 = dx * dx;
	  denominv = 1.0 / (sigma2 - dx2);
	  val += (u * dx + v * dx2) * denominv;

	  /* update gval, wval, gcval (approximant functions) */
	  c = sigma2 * dx;
	  d->gval += (dfdx[j] * c + (fabs(dfdx[j])*sigma[j] + 0.5*rho) * dx2)
	       * denominv;
	  d->wval += 0.5 * dx2 * denominv;
	  for (i = 0; i < m; ++i) if (!nlopt_isnan(fcval[i]))
	       gcval[i] += (dfcdx[i*n+j] * c + (fabs(dfcdx[i*n+j])*sigma[j]
						+ 0.5*rhoc[i]) * dx2)
		    * denominv;
     }

     /* gradient is easy to compute: since we are at a minimum x (dval/dx=0),
	we only need the partial derivative with respect to y, and
	we negate because we are maximizing: */
     if (grad) for (i = 0; i < m; ++i) grad[i] = -gcval[i];
     return -val;
}

/***********************************************************************/

/* note that we implement a hidden feature not in the standard
   nlopt_minimize_constrained interface: whenever the constraint
   function returns NaN, that constraint becomes inactive. */

nlopt_result mma_minimize(unsigned n, nlopt_func f, void *f_data,
			  unsigned m, nlopt_constraint *fc,
			  const double *lb, const double *ub, /* bounds */
			  double *x, /* in: initial guess, out: minimizer */
			  double *minf,
			  nlopt_stopping *stop,
			  nlopt_opt dual_opt, int inner_maxeval, unsigned verbose, double rho_init,
			  const double *sigma_init)
{
     nlopt_result ret = NLOPT_SUCCESS;
     double *xcur, rho, *sigma, *dfdx, *dfdx_cur, *xprev, *xprevprev, fcur;
     double *dfcdx, *dfcdx_cur;
     double *fcval, *fcval_cur, *rhoc, *gcval, *y, *dual_lb, *dual_ub;
     unsigned i, ifc, j, k = 0;
     dual_data dd;
     int feasible;
     double infeasibility;
     unsigned mfc;

	 verbose = MAX(mma_verbose, verbose);

     m = nlopt_count_constraints(mfc = m, fc);
     if (nlopt_get_dimension(dual_opt) != m) {
         nlopt_stop_msg(stop, "dual optimizer has wrong dimension %d != %d",
                        nlopt_get_dimension(dual_opt), m);
         return NLOPT_INVALID_ARGS;
     }
     sigma = (double *) malloc(sizeof(double) * (6*n + 2*m*n + m*7));
     if (!sigma) return NLOPT_OUT_OF_MEMORY;
     ++vh_depth;
     dfdx = sigma + n;
     dfdx_cur = dfdx + n;
     xcur = dfdx_cur + n;
     xprev = xcur + n;
     xprevprev = xprev + n;
     fcval = xprevprev + n;
     fcval_cur = fcval + m;
     rhoc = fcval_cur + m;
     gcval = rhoc + m;
     dual_lb = gcval + m;
     dual_ub = dual_lb + m;
     y = dual_ub + m;
     dfcdx = y + m;
     dfcdx_cur = dfcdx + m*n;

     dd.n = n;
     dd.x = x;
     dd.lb = lb;
     dd.ub = ub;
     dd.sigma = sigma;
     dd.dfdx = dfdx;
     dd.dfcdx = dfcdx;
     dd.fcval = fcval;
     dd.rhoc = rhoc;
     dd.xcur = xcur;
     dd.gcval = gcval;

     for (j = 0; j < n; ++j) {
	  if (sigma_init && sigma_init[j] > 0)
	  	   sigma[j] = sigma_init[j];
	  else if (nlopt_isinf(ub[j]) || nlopt_isinf(lb[j]))
	       sigma[j] = 1.0; /* arbitrary default */
	  else
	       sigma[j] = 0.5 * (ub[j] - lb[j]);
     }
     rho = rho_init;
     for (i = 0; i < m; ++i) {
	  rhoc[i] = rho_init;
	  dual_lb[i] = y[i] = 0.0;
	  dual_ub[i] = HUGE_VAL;
     }

     dd.fval = fcur = *minf = f(n, x, dfdx, f_data);
     ++ *(stop->nevals_p);
     memcpy(xcur, x, sizeof(double) * n);
     if (nlopt_stop_forced(stop)) { ret = NLOPT_FORCED_STOP; goto done; }

     feasible = 1; infeasibility = 0;
     for (i = ifc = 0; ifc < mfc; ++ifc) {
	  nlopt_eval_constraint(fcval + i, dfcdx + i*n,
				fc + ifc, n, x);
	  i += fc[ifc].m;
	  if (nlopt_stop_forced(stop)) { ret = NLOPT_FORCED_STOP; goto done; }
     }
     for (i = 0; i < m; ++i) {
	  feasible = feasible && (fcval[i] <= 0 || nlopt_isnan(fcval[i]));
	  if (fcval[i] > infeasibility) infeasibility = fcval[i];
     }
     /* For non-feasible initial points, set a finite (large)
	upper-bound on the dual variables.  What this means is that,
	if no feasible solution is found from the dual problem, it
	will minimize the dual objective with the unfeasible
	constraint weighted by 1e40 -- basically, minimizing the
	unfeasible constraint until it becomes feasible or until we at
	least obtain a step towards a feasible point.

	Svanberg suggested a different approach in his 1987 paper, basically
	introducing additional penalty variables for unfeasible constraints,
	but this is easier to implement and at least as efficient. */
     if (!feasible)
	  for (i = 0; i < m; ++i) dual_ub[i] = 1e40;

     nlopt_set_min_objective(dual_opt, dual_func, &dd);
     nlopt_set_lower_bounds(dual_opt, dual_lb);
     nlopt_set_upper_bounds(dual_opt, dual_ub);
     nlopt_set_stopval(dual_opt, -HUGE_VAL);
     nlopt_remove_inequality_constraints(dual_opt);
     nlopt_remove_equality_constraints(dual_opt);

     while (1) { /* outer iterations */
	  int inner_nevals = 0;
	  double fprev = fcur;
	  if (nlopt_stop_forced(stop)) ret = NLOPT_FORCED_STOP;
	  else if (nlopt_stop_evals(stop)) ret = NLOPT_MAXEVAL_REACHED;
	  else if (nlopt_stop_time(stop)) ret = NLOPT_MAXTIME_REACHED;
	  else if (feasible && *minf < stop->minf_max)
	       ret = NLOPT_MINF_MAX_REACHED;
	  if (ret != NLOPT_SUCCESS) goto done;
	  if (++k > 1) memcpy(xprevprev, xprev, sizeof(double) * n);
	  memcpy(xprev, xcur, sizeof(double) * n);

	  while (1) { /* inner iterations */
	       double min_dual, infeasibility_cur;
	       int feasible_cur, inner_done;
	       unsigned save_verbose;
	       int new_infeasible_constraint;
	       nlopt_result reti;

	       /* solve dual problem */
	       dd.rho = rho; dd.count = 0;
	       save_verbose = mma_verbose;
	       mma_verbose = 0; /* no recursive verbosity */
	       reti = nlopt_optimize_limited(dual_opt, y, &min_dual,
					     0,
					     stop->maxtime - (nlopt_seconds()
							      - stop->start));
	       mma_verbose = save_verbose;
	       if (reti < 0 || reti == NLOPT_MAXTIME_REACHED) {
		    if (VH) vh_fail((int) reti);
		    ret = reti;
		    goto done;
	       }

	       dual_func(m, y, NULL, &dd); /* evaluate final xcur etc. */
	       if (verbose) {
		    printf("MMA dual converged in %d iterations to g=%g:\n",
			   dd.count, dd.gval);
		    for (i = 0; i < MIN(verbose, m); ++i)
			 printf("    MMA y[%u]=%g, gc[%u]=%g\n",
				i, y[i], i, dd.gcval[i]);
	       }

	       fcur = f(n, xcur, dfdx_cur, f_data);
	       ++ *(stop->nevals_p);
		   ++inner_nevals;
	       if (nlopt_stop_forced(stop)) {
		    ret = NLOPT_FORCED_STOP; goto done; }
	       feasible_cur = 1; infeasibility_cur = 0;
	       new_infeasible_constraint = 0;
	       inner_done = dd.gval >= fcur;
	       if (VH) vh_cons(dd.gval >= fcur, nlopt_isnan(dd.gval));
	       if (nlopt_isnan(fcur) || nlopt_isnan(dd.gval)) {
		    /* the conservative-approximation test below can never
		       succeed, and rho is not increased either: without
		       this, the same point is re-evaluated until the
		       evaluation limit (if any) is reached */
		    ret = NLOPT_ROUNDOFF_LIMITED; goto done; }
	       for (i = ifc = 0; ifc < mfc; ++ifc) {
		    nlopt_eval_constraint(fcval_cur + i, dfcdx_cur + i*n,
					  fc + ifc, n, xcur);
		    i += fc[ifc].m;
		    if (nlopt_stop_forced(stop)) {
			 ret = NLOPT_FORCED_STOP; goto done; }
	       }
	       if (VH) for (i = 0; i < m; ++i) vh_consg(i, dd.gcval[i] >= fcval_cur[i]);
	       for (i = ifc = 0; ifc < mfc; ++ifc) {
		    unsigned i0 = i, inext = i + fc[ifc].m;
		    for (; i < inext; ++i)
			 if (!nlopt_isnan(fcval_cur[i])) {
			      feasible_cur = feasible_cur
				   && (fcval_cur[i] <= fc[ifc].tol[i-i0]);
			      if (!nlopt_isnan(fcval[i]))
				   inner_done = inner_done &&
					(dd.gcval[i] >= fcval_cur[i]);
			      else if (fcval_cur[i] > 0)
				   new_infeasible_constraint = 1;
			      if (fcval_cur[i] > infeasibility_cur)
				   infeasibility_cur = fcval_cur[i];
			 }
	       }

		   inner_done = inner_done || (inner_maxeval > 0 && inner_nevals == inner_maxeval);

	       if ((fcur < *minf && (inner_done || feasible_cur || !feasible))
		    || (!feasible && infeasibility_cur < infeasibility)) {
		    if (verbose && !feasible_cur)
			 printf("MMA - using infeasible point?\n");
		    dd.fval = *minf = fcur;
		    infeasibility = infeasibility_cur;
		    memcpy(fcval, fcval_cur, sizeof(double)*m);
		    memcpy(x, xcur, sizeof(double)*n);
		    memcpy(dfdx, dfdx_cur, sizeof(double)*n);
		    memcpy(dfcdx, dfcdx_cur, sizeof(double)*n*m);

		    /* once we have reached a feasible solution, the
		       algorithm should never make the solution infeasible
		       again (if inner_done), although the constraints may
		       be violated slightly by rounding errors etc. so we
		       must be a little careful about checking feasibility */
		    if (infeasibility_cur == 0) {
			 if (!feasible) { /* reset upper bounds to infin. */
			      for (i = 0; i < m; ++i) dual_ub[i] = HUGE_VAL;
			      nlopt_set_upper_bounds(dual_opt, dual_ub);
			 }
			 feasible = 1;
		    }
		    else if (new_infeasible_constraint) feasible = 0;

	       }
	       if (nlopt_stop_forced(stop)) ret = NLOPT_FORCED_STOP;
	       else if (nlopt_stop_evals(stop)) ret = NLOPT_MAXEVAL_REACHED;
	       else if (nlopt_stop_time(stop)) ret = NLOPT_MAXTIME_REACHED;
	       else if (feasible && *minf < stop->minf_max)
		    ret = NLOPT_MINF_MAX_REACHED;
	       if (ret != NLOPT_SUCCESS) goto done;

	       if (inner_done) break;

	       if (fcur > dd.gval)
		    rho = MIN(10*rho, 1.1 * (rho + (fcur-dd.gval) / dd.wval));
	       if (VH) vh_rhoinf(nlopt_isinf(rho));
	       if (nlopt_isinf(rho)) { /* e.g. fcur = +Inf however small the step */
		    ret = NLOPT_ROUNDOFF_LIMITED; goto done; }
	       for (i = 0; i < m; ++i)
		    if (!nlopt_isnan(fcval_cur[i]) && fcval_cur[i] > dd.gcval[i])
			 rhoc[i] =
			      MIN(10*rhoc[i],
				  1.1 * (rhoc[i] + (fcval_cur[i]-dd.gcval[i])
					 / dd.wval));

	       if (verbose)
		    printf("MMA inner iteration: rho -> %g\n", rho);
	       for (i = 0; i < MIN(verbose, m); ++i)
		    printf("                 MMA rhoc[%u] -> %g\n", i,rhoc[i]);
	  }

	  if (nlopt_stop_ftol(stop, fcur, fprev))
	       ret = NLOPT_FTOL_REACHED;
	  if (nlopt_stop_x(stop, xcur, xprev))
	       ret = NLOPT_XTOL_REACHED;
	  if (ret != NLOPT_SUCCESS) goto done;

	  /* update rho and sigma for iteration k+1 */
	  rho = MAX(0.1 * rho, MMA_RHOMIN);
	  if (verbose)
	       printf("MMA outer iteration: rho -> %g\n", rho);
	  for (i = 0; i < m; ++i)
	       rhoc[i] = MAX(0.1 * rhoc[i], MMA_RHOMIN);
	  for (i = 0; i < MIN(verbose, m); ++i)
	       printf("                 MMA rhoc[%u] -> %g\n", i, rhoc[i]);
	  if (k > 1) {
	       for (j = 0; j < n; ++j) {
		    double dx2 = (xcur[j]-xprev[j]) * (xprev[j]-xprevprev[j]);
		    double gam = dx2 < 0 ? 0.7 : (dx2 > 0 ? 1.2 : 1);
		    sigma[j] *= gam;
		    if (!nlopt_isinf(ub[j]) && !nlopt_isinf(lb[j])) {
			 sigma[j] = MIN(sigma[j], 10*(ub[j]-lb[j]));
			 sigma[j] = MAX(sigma[j], 0.01*(ub[j]-lb[j]));
		    }
	       }
	       for (j = 0; j < MIN(verbose, n); ++j)
		    printf("                 MMA sigma[%u] -> %g\n",
			   j, sigma[j]);
	  }
     }

 done:
     --vh_depth;
     free(sigma);
     return ret;
}
