import subprocess, sys, random, collections
random.seed(7)
s0,cnt=int(sys.argv[1]),int(sys.argv[2])
lines=[l for l in subprocess.run(["./mma_replay",str(s0),str(cnt)],capture_output=True,text=True).stdout.splitlines() if not l.startswith("WARNING")]
runs=[];cur=[]
for l in lines:
    cur.append(l)
    if l.startswith("endsearch"): runs.append(cur); cur=[]
# coverage
cov=collections.Counter()
for r in runs:
    cov["alg="+r[0].split()[1].split("=")[1]]+=1
    im=int([t for t in r[0].split() if t.startswith("inner_maxeval=")][0].split("=")[1])
    if im>0: cov["inner_maxeval>0"]+=1
    evs=[l.split() for l in r if l.startswith("ev ")]
    for i,e in enumerate(evs):
        st=int(e[3]); 
        if st==1: cov["stop=1"]+=1
        elif st>1: cov["stop>=2"]+=1
        if i>0:
            if e[5]=="1": cov["consF=1"]+=1
            if e[6]=="1": cov["gvalNaN=1"]+=1
            if e[8]=="1": cov["rhoInf=1"]+=1
        if e[2][:3] in ("7ff","fff") and e[2] not in("7ff0000000000000","fff0000000000000"): cov["f NaN"]+=1
        if e[4]!="-" and any(g[:3] in("7ff","fff") and g not in("7ff0000000000000","fff0000000000000") for g in e[4].split(",")): cov["g has NaN"]+=1
    if any(l.startswith("fail") for l in r): cov["dual failure"]+=1
print("coverage:",dict(cov))
# negative tests
feed=[];kinds=[]
for r in runs:
    cfgev=[l for l in r if l.startswith(("cfg","ev "))]
    es=r[-1].split(); ret,nev,x,m=es[1],es[2],es[3],es[4]
    evs=[l.split() for l in r if l.startswith("ev ")]
    muts=[]
    for rr in ["2","3","4","5","-4","-5"]:
        if rr!=ret: muts.append(("ret->"+rr,[rr,nev,x,m]))
    muts.append(("nevals+1",[ret,str(int(nev)+1),x,m]))
    others=[e for e in evs if (e[1],e[2])!=(x,m)]
    if others:
        o=random.choice(others); muts.append(("other pair",[ret,nev,o[1],o[2]]))
    muts.append(("minf bit",[ret,nev,x,m[:-1]+("0" if m[-1]!="0" else "1")]))
    for k,mu in muts:
        feed+=cfgev+["endsearch "+" ".join(mu)]; kinds.append(k)
out=[l for l in subprocess.run(["../.lake/build/bin/nlopt_model","mma"],input="\n".join(feed)+"\n",capture_output=True,text=True).stdout.splitlines() if not l.startswith("WARNING")]
assert len(out)==len(kinds)
res=collections.defaultdict(collections.Counter)
for k,o in zip(kinds,out): res[k][o.split()[0]]+=1
for k in res: print(k,dict(res[k]))
