/* Replays the two arithmetic-independent witnesses of Props/DrvMma.lean on the REAL drivers (HEAD sources) with scripted
   callbacks (the control flow depends only on the returned values), and a genuine (non-scripted) problem showing the
   inner_maxeval defect. */
#include <stdio.h>
#include <stdlib.h>
#include <string.h>
#include <math.h>
#include "nlopt.h"
#include "nlopt-util.h"
#include "mma.h"
int vh_depth = 0;
void vh_fail(int r) { (void) r; } void vh_cons(int a, int b) { (void) a; (void) b; }
void vh_consg(unsigned i, int b) { (void) i; (void) b; } void vh_rhoinf(int b) { (void) b; }

static const double *fs, *gs; static int kf, kg;
static double sobj(unsigned n, const double *x, double *grad, void *d) { unsigned j; (void) x; (void) d;
    if (grad) for (j = 0; j < n; ++j) grad[j] = 1; return fs[kf++]; }
static double scon(unsigned n, const double *x, double *grad, void *d) { unsigned j; (void) x; (void) d;
    if (grad) for (j = 0; j < n; ++j) grad[j] = 1; return gs[kg++]; }

static void scripted(const char *name, int ccsa, const double *f, const double *g, double tol, int maxeval, double stopval,
                     int inner) {
    double lb = -10, ub = 10, x = 0, minf = -777; int nev = 0, fl = 0; nlopt_constraint fc; nlopt_stopping st;
    nlopt_opt dual = nlopt_create(NLOPT_LD_MMA, 1); nlopt_result r;
    nlopt_set_ftol_rel(dual, 1e-14); nlopt_set_maxeval(dual, 100000);
    fs = f; gs = g; kf = kg = 0;
    fc.m = 1; fc.f = scon; fc.mf = NULL; fc.pre = NULL; fc.f_data = NULL; fc.tol = &tol;
    memset(&st, 0, sizeof st); st.n = 1; st.minf_max = stopval; st.nevals_p = &nev; st.maxeval = maxeval;
    st.force_stop = &fl; st.start = nlopt_seconds();
    r = ccsa ? ccsa_quadratic_minimize(1, sobj, NULL, 1, &fc, NULL, &lb, &ub, &x, &minf, &st, dual, inner, 0, 1.0, NULL)
             : mma_minimize(1, sobj, NULL, 1, &fc, &lb, &ub, &x, &minf, &st, dual, inner, 0, 1.0, NULL);
    printf("%s (%s): ret=%d nevals=%d minf=%g (objective calls %d)\n", name, ccsa ? "ccsa" : "mma", (int) r, nev, minf, kf);
    nlopt_destroy(dual);
}

/* genuine problem through the public API: minimize -x subject to x^3 - 1 <= 0 (optimum x = 1), x0 = 0 (feasible) */
static int cnt;
static double gobj(unsigned n, const double *x, double *grad, void *d) { (void) n; (void) d; ++cnt; if (grad) grad[0] = -1; return -x[0]; }
static double gcon(unsigned n, const double *x, double *grad, void *d) { (void) n; (void) d;
    if (grad) grad[0] = 3 * x[0] * x[0]; return x[0] * x[0] * x[0] - 1; }
static void genuine(nlopt_algorithm alg, int inner, double stopval) {
    nlopt_opt o = nlopt_create(alg, 1); double x = 0, minf = 0, lb = -3, ub = 3; nlopt_result r;
    nlopt_set_min_objective(o, gobj, NULL); nlopt_add_inequality_constraint(o, gcon, NULL, 0.0);
    nlopt_set_lower_bounds(o, &lb); nlopt_set_upper_bounds(o, &ub);
    nlopt_set_stopval(o, stopval); nlopt_set_maxeval(o, 200); nlopt_set_xtol_rel(o, 1e-8);
    if (inner) nlopt_set_param(o, "inner_maxeval", inner);
    cnt = 0; r = nlopt_optimize(o, &x, &minf);
    printf("genuine %s inner_maxeval=%d stopval=%g: ret=%d evals=%d x=%.6f minf=%.6f g(x)=%.6f %s\n", nlopt_algorithm_name(alg), inner,
           stopval, (int) r, cnt, x, minf, x * x * x - 1, x * x * x - 1 > 1e-8 ? "INFEASIBLE" : "feasible");
    nlopt_destroy(o);
}

int main(void) {
    { const double f[] = { 3, 1, 2, 9, 9 }, g[] = { 2, 0.5, -1, 9, 9 };
      scripted("best_feasible_full_false   expect ret=5 nevals=3 minf=2", 0, f, g, 1.0, 3, -HUGE_VAL, 0);
      scripted("best_feasible_full_false   expect ret=5 nevals=3 minf=2", 1, f, g, 1.0, 3, -HUGE_VAL, 0); }
    { const double f[] = { 3, 1, 9, 9 }, g[] = { -1, 2, 9, 9 };
      scripted("returned_feasible_full_false_cap expect ret=2 nevals=2 minf=1", 0, f, g, 0.0, 0, 2.0, 1);
      scripted("returned_feasible_full_false_cap expect ret=2 nevals=2 minf=1", 1, f, g, 0.0, 0, 2.0, 1); }
    genuine(NLOPT_LD_MMA, 0, -HUGE_VAL); genuine(NLOPT_LD_MMA, 1, -HUGE_VAL); genuine(NLOPT_LD_MMA, 1, -1.05);
    genuine(NLOPT_LD_CCSAQ, 0, -HUGE_VAL); genuine(NLOPT_LD_CCSAQ, 1, -HUGE_VAL); genuine(NLOPT_LD_CCSAQ, 1, -1.05);
    return 0;
}
