/* Copyright (c) 2007-2014 Massachusetts Institute of Technology
 *
 * Permission is hereby granted, free of charge, to any person obtaining
 * a copy of this software and associated documentation files (the
 * "Software"), to deal in the Software without restriction, including
 * without limitation the rights to use, copy, modify, merge, publish,
 * distribute, sublicense, and/or sell copies of the Software, and to
 * permit persons to whom the Software is furnished to do so, subject to
 * the following conditions:
 *
 * The above copyright notice and this permission notice shall be
 * included in all copies or substantial portions of the Software.
 *
 * THE SOFTWARE IS PROVIDED "AS IS", WITHOUT WARRANTY OF ANY KIND,
 * EXPRESS OR IMPLIED, INCLUDING BUT NOT LIMITED TO THE WARRANTIES OF
 * MERCHANTABILITY, FITNESS FOR A PARTICULAR PURPOSE AND
 * NONINFRINGEMENT. IN NO EVENT SHALL THE AUTHORS OR COPYRIGHT HOLDERS BE
 * LIABLE FOR ANY CLAIM, DAMAGES OR OTHER LIABILITY, WHETHER IN AN ACTION
 * OF CONTRACT, TORT OR OTHERWISE, ARISING FROM, OUT OF OR IN CONNECTION
 * WITH THE SOFTWARE OR THE USE OR OTHER DEALINGS IN THE SOFTWARE.
 */

/* In this file we implement Svanberg's CCSA algorithm with the
   simple linear approximation + quadratic penalty function.

   We also allow the user to specify an optional "preconditioner": an
   approximate Hessian (which must be symmetric & positive
   semidefinite) that can be added into the approximation.  [X. Liang
   and I went through the convergence proof in Svanberg's paper
   and it does not seem to be modified by such preconditioning, as
   long as the preconditioner eigenvalues are bounded above for all x.]

   For the non-preconditioned case the trust-region subproblem is
   separable and can be solved by a dual method.  For the preconditioned
   case the subproblem is still convex but in general is non-separable
   so we solve by calling the same algorithm recursively, under the
   assumption that the subproblem objective is cheap to evaluate.
*/

#include <stdlib.h>
#include <math.h>
#include <string.h>
#include <stdio.h>

#include "mma.h"
/* ---- instrumentation hooks (replay harness) ---- */
extern int vh_depth;
extern void vh_fail(int reti);
extern void vh_cons(int consF, int gvalNaN);
extern void vh_consg(unsigned i, int b);
extern void vh_rhoinf(int b);
#define VH (vh_depth == 1)

#include "nlopt-util.h"

THREADLOCAL unsigned ccsa_verbose = 0; /* > 0 for verbose output */

#define MIN(a,b) ((a) < (b) ? (a) : (b))
#define MAX(a,b) ((a) > (b) ? (a) : (b))

/* magic minimum value for rho in CCSA ... the 2002 paper says it should
   be a "fixed, strictly positive `small' number, e.g. 1e-5"
   ... grrr, I hate these magic numbers, which seem like they
   should depend on the objective function in some way ... in particular,
   note that rho is dimensionful (= dimensions of objective function) */
#define CCSA_RHOMIN 1e-5

/***********************************************************************/
/* function for CCSA's dual solution of the approximate problem */

typedef struct {
     int count; /* evaluation count, incremented each call */
     unsigned n; /* must be set on input to dimension of x */
     const double *x, *lb, *ub, *sigma, *dfdx; /* arrays of length n */
     const double *dfcdx; /* m-by-n array of fc gradients */
     double fval, rho; /* must be set on input */
     const double *fcval, *rhoc; /* arrays of length m */
     double *xcur; /* array of length n, output each time */
     double gval, wval, *gcval; /* output each time (array length m) */
     nlopt_precond pre; void *pre_data;
     nlopt_precond *prec; void **prec_data; /* length = # constraints */
     double *scratch; /* length = 2*n */
} dual_data;

static double sqr(double x) { return x * x; }

static double dual_func(unsigned m, const double *y, double *grad, void *d_)
{
     dual_data *d = (dual_data *) d_;
     unsigned n = d->n;
     const double *x = d->x, *lb = d->lb, *ub = d->ub, *sigma = d->sigma,
	  *dfdx = d->dfdx;
     const double *dfcdx = d->dfcdx;
     double rho = d->rho, fval = d->fval;
     const double *rhoc = d->rhoc, *fcval = d->fcval;
     double *xcur = d->xcur;
     double *gcval = d->gcval;
     unsigned i, j;
     double val;

     d->count++;

     val = d->gval = fval;
     d->wval = 0;
     for (i = 0; i < m; ++i)
	  val += y[i] * (gcval[i] = fcval[i]);

     for (j = 0; j < n; ++j) {
	  double u, v, dx, sigma2, dx2, dx2sig;

	  /* first, compute xcur[j] = x+dx for y.  Because this objective is
	     separable, we can minimize over x analytically, and the minimum
	     dx is given by the solution of a linear equation
	             u dx + v sigma^2 = 0, i.e. dx = -sigma^2 v/u
	     where u and v are defined by the sums below.  However,
	     we also have to check that |dx| <= sigma and that
	     lb <= x+dx <= ub. */

	  if (sigma[j] == 0) { /* special case for lb[i] == ub[i] dims, dx=0 */
	       xcur[j] = x[j];
	       continue;
	  }

	  u = rho;
	  v = dfdx[j];
	  for (i = 0; i < m; ++i) {
	       u += rhoc[i] * y[i];
	       v += dfcdx[i*n + j] * y[i];
	  }
	  dx = -(sigma2 = sqr(sigma[j])) * v/u;

	  /* if dx is out of bounds, we are guaranteed by convexity
	     that the minimum is at the bound on the side of dx */
	  if (fabs(dx) > sigma[j]) dx = copysign(sigma[j], dx);
	  xcur[j] = x[j] + dx;
	  if (xcur[j] > ub[j]) xcur[j] = ub[j];
	  else if (xcur[j] < lb[j]) xcur[j] = lb[j];
	  dx = xcur[j] - x[j];

	  /* function value: */
	  dx2 = dx * dx;
	  val += v * dx + 0.5 * u * dx2 / sigma2;

	  /* update gval, wval, gcval (approximant functions) */
	  d->gval += dfdx[j] * dx + rho * (dx2sig = 0.5*dx2/sigma2);
	  d->wval += dx2sig;
	  for (i = 0; i < m; ++i)
	       gcval[i] += dfcdx[i*n+j] * dx + rhoc[i] * dx2sig;
     }

     /* gradient is easy to compute: since we are at a minimum x (dval/dx=0),
	we only need the partial derivative with respect to y, and
	we negate because we are maximizing: */
     if (grad) for (i = 0; i < m; ++i) grad[i] = -gcval[i];
     return -val;
}

/***********************************************************************/

/* compute g(x - x0) and its gradient */
static double gfunc(unsigned n, double f, const double *dfdx,
		    double rho, const double *sigma,
		    const double *x0,
		    nlopt_precond pre, void *pre_data, double *scratch,
		    const double *x, double *grad)
{
     double *dx = scratch, *Hdx = scratch + n;
     double val = f;
     unsigned j;

     for (j = 0; j < n; ++j) {
	  double sigma2inv = 1.0 / sqr(sigma[j]);
	  dx[j] = x[j] - x0[j];
	  val += dfdx[j] * dx[j] + (0.5*rho) * sqr(dx[j]) * sigma2inv;
	  if (grad) grad[j] = dfdx[j] + rho * dx[j] * sigma2inv;
     }

     if (pre) {
	  pre(n, x0, dx, Hdx, pre_data);
	  for (j = 0; j < n; ++j)
	       val += 0.5 * dx[j] * Hdx[j];
	  if (grad)
	       for (j = 0; j < n; ++j)
		    grad[j] += Hdx[j];
     }

     return val;
}

static double g0(unsigned n, const double *x, double *grad, void *d_)
{
     dual_data *d = (dual_data *) d_;
     d->count++;
     return gfunc(n, d->fval, d->dfdx, d->rho, d->sigma,
		  d->x,
		  d->pre, d->pre_data, d->scratch,
		  x, grad);
}


static void gi(unsigned m, double *result,
	       unsigned n, const double *x, double *grad, void *d_)
{
     dual_data *d = (dual_data *) d_;
     unsigned i;
     for (i = 0; i < m; ++i)
	  result[i] = gfunc(n, d->fcval[i], d->dfcdx + i*n, d->rhoc[i],
			    d->sigma,
			    d->x,
			    d->prec ? d->prec[i] : NULL,
			    d->prec_data ? d->prec_data[i] : NULL,
			    d->scratch,
			    x, grad);
}


/***********************************************************************/

nlopt_result ccsa_quadratic_minimize(
     unsigned n, nlopt_func f, void *f_data,
     unsigned m, nlopt_constraint *fc,

     nlopt_precond pre,

     const double *lb, const double *ub, /* bounds */
     double *x, /* in: initial guess, out: minimizer */
     double *minf,
     nlopt_stopping *stop,
     nlopt_opt dual_opt, int inner_maxeval, unsigned verbose, double rho_init,
	 const double *sigma_init)
{
     nlopt_result ret = NLOPT_SUCCESS;
     double *xcur, rho, *sigma, *dfdx, *dfdx_cur, *xprev, *xprevprev, fcur;
     double *dfcdx, *dfcdx_cur;
     double *fcval, *fcval_cur, *rhoc, *gcval, *y, *dual_lb, *dual_ub;
     double *pre_lb = NULL, *pre_ub = NULL;
     unsigned i, ifc, j, k = 0;
     dual_data dd;
     int feasible;
     double infeasibility;
     unsigned mfc;
     unsigned no_precond;
     nlopt_opt pre_opt = NULL;

	 verbose = MAX(ccsa_verbose, verbose);

     m = nlopt_count_constraints(mfc = m, fc);
     if (nlopt_get_dimension(dual_opt) != m) {
         nlopt_stop_msg(stop, "dual optimizer has wrong dimension %d != %d",
                        nlopt_get_dimension(dual_opt), m);
         return NLOPT_INVALID_ARGS;
     }
     sigma = (double *) malloc(sizeof(double) * (6*n + 2*m*n + m*7));
     if (!sigma) return NLOPT_OUT_OF_MEMORY;
     ++vh_depth;
     dfdx = sigma + n;
     dfdx_cur = dfdx + n;
     xcur = dfdx_cur + n;
     xprev = xcur + n;
     xprevprev = xprev + n;
     fcval = xprevprev + n;
     fcval_cur = fcval + m;
     rhoc = fcval_cur + m;
     gcval = rhoc + m;
     dual_lb = gcval + m;
     dual_ub = dual_lb + m;
     y = dual_ub + m;
     dfcdx = y + m;
     dfcdx_cur = dfcdx + m*n;

     dd.n = n;
     dd.x = x;
     dd.lb = lb;
     dd.ub = ub;
     dd.sigma = sigma;
     dd.dfdx = dfdx;
     dd.dfcdx = dfcdx;
     dd.fcval = fcval;
     dd.rhoc = rhoc;
     dd.xcur = xcur;
     dd.gcval = gcval;
     dd.pre = pre; dd.pre_data = f_data;
     dd.prec = NULL; dd.prec_data = NULL;
     dd.scratch = NULL;

     if (m) {
	  dd.prec = (nlopt_precond *) malloc(sizeof(nlopt_precond) * m);
	  dd.prec_data = (void **) malloc(sizeof(void *) * m);
	  if (!dd.prec || !dd.prec_data) {
	       ret = NLOPT_OUT_OF_MEMORY;
	       goto done;
	  }
	  for (i = ifc = 0; ifc < mfc; ++ifc) {
	       unsigned inext = i + fc[ifc].m;
	       for (; i < inext; ++i) {
		    dd.prec[i] = fc[ifc].pre;
		    dd.prec_data[i] = fc[ifc].f_data;
	       }
	  }
     }

     no_precond = pre == NULL;
     if (dd.prec)
	  for (i = 0; i < m; ++i)
	       no_precond = no_precond && dd.prec[i] == NULL;

     if (!no_precond) {
	  dd.scratch = (double*) malloc(sizeof(double) * (4*n));
	  if (!dd.scratch) {
	       free(sigma); --vh_depth;
	       return NLOPT_OUT_OF_MEMORY;
	  }
	  pre_lb = dd.scratch + 2*n;
	  pre_ub = pre_lb + n;

	  pre_opt = nlopt_create(nlopt_get_algorithm(dual_opt), n);
	  if (!pre_opt) {
              nlopt_stop_msg(stop, "failure creating precond. optimizer");
              ret = NLOPT_FAILURE;
              goto done;
          }
	  ret = nlopt_set_min_objective(pre_opt, g0, &dd);
	  if (ret < 0) goto done;
	  ret = nlopt_add_inequality_mconstraint(pre_opt, m, gi, &dd, NULL);
	  if (ret < 0) goto done;
	  ret = nlopt_set_ftol_rel(pre_opt, nlopt_get_ftol_rel(dual_opt));
	  if (ret < 0) goto done;
	  ret = nlopt_set_ftol_abs(pre_opt, nlopt_get_ftol_abs(dual_opt));
	  if (ret < 0) goto done;
	  ret = nlopt_set_maxeval(pre_opt, nlopt_get_maxeval(dual_opt));
	  if (ret < 0) goto done;
     }

     for (j = 0; j < n; ++j) {
	  if (sigma_init && sigma_init[j] > 0)
	  	   sigma[j] = sigma_init[j];
	  else if (nlopt_isinf(ub[j]) || nlopt_isinf(lb[j]))
	       sigma[j] = 1.0; /* arbitrary default */
	  else
	       sigma[j] = 0.5 * (ub[j] - lb[j]);
     }
     rho = rho_init;
     for (i = 0; i < m; ++i) {
	  rhoc[i] = rho_init;
	  dual_lb[i] = y[i] = 0.0;
	  dual_ub[i] = HUGE_VAL;
     }

     dd.fval = fcur = *minf = f(n, x, dfdx, f_data);
     ++ *(stop->nevals_p);
     memcpy(xcur, x, sizeof(double) * n);
     if (nlopt_stop_forced(stop)) { ret = NLOPT_FORCED_STOP; goto done; }

     feasible = 1; infeasibility = 0;
     for (i = ifc = 0; ifc < mfc; ++ifc) {
	  nlopt_eval_constraint(fcval + i, dfcdx + i*n,
				fc + ifc, n, x);
	  i += fc[ifc].m;
	  if (nlopt_stop_forced(stop)) { ret = NLOPT_FORCED_STOP; goto done; }
     }
     for (i = 0; i < m; ++i) {
	  feasible = feasible && fcval[i] <= 0;
	  if (fcval[i] > infeasibility) infeasibility = fcval[i];
     }
     /* For non-feasible initial points, set a finite (large)
	upper-bound on the dual variables.  What this means is that,
	if no feasible solution is found from the dual problem, it
	will minimize the dual objective with the unfeasible
	constraint weighted by 1e40 -- basically, minimizing the
	unfeasible constraint until it becomes feasible or until we at
	least obtain a step towards a feasible point.

	Svanberg suggested a different approach in his 1987 paper, basically
	introducing additional penalty variables for unfeasible constraints,
	but this is easier to implement and at least as efficient. */
     if (!feasible)
	  for (i = 0; i < m; ++i) dual_ub[i] = 1e40;

     nlopt_set_min_objective(dual_opt, dual_func, &dd);
     nlopt_set_lower_bounds(dual_opt, dual_lb);
     nlopt_set_upper_bounds(dual_opt, dual_ub);
     nlopt_set_stopval(dual_opt, -HUGE_VAL);
     nlopt_remove_inequality_constraints(dual_opt);
     nlopt_remove_equality_constraints(dual_opt);

     while (1) { /* outer iterations */
	  int inner_nevals = 0;
	  double fprev = fcur;
	  if (nlopt_stop_forced(stop)) ret = NLOPT_FORCED_STOP;
	  else if (nlopt_stop_evals(stop)) ret = NLOPT_MAXEVAL_REACHED;
	  else if (nlopt_stop_time(stop)) ret = NLOPT_MAXTIME_REACHED;
	  else if (feasible && *minf < stop->minf_max)
	       ret = NLOPT_MINF_MAX_REACHED;
	  if (ret != NLOPT_SUCCESS) goto done;
	  if (++k > 1) memcpy(xprevprev, xprev, sizeof(double) * n);
	  memcpy(xprev, xcur, sizeof(double) * n);

	  while (1) { /* inner iterations */
	       double min_dual, infeasibility_cur;
	       int feasible_cur, inner_done;
	       unsigned save_verbose;
	       nlopt_result reti;

	       if (no_precond) {
		    /* solve dual problem */
		    dd.rho = rho; dd.count = 0;
		    save_verbose = ccsa_verbose;
		    ccsa_verbose = 0; /* no recursive verbosity */
		    reti = nlopt_optimize_limited(dual_opt, y, &min_dual,
						  0,
						  stop->maxtime
						  - (nlopt_seconds()
						     - stop->start));
		    ccsa_verbose = save_verbose;
		    if (reti < 0 || reti == NLOPT_MAXTIME_REACHED) {
		    if (VH) vh_fail((int) reti);
			 ret = reti;
			 goto done;
		    }

		    dual_func(m, y, NULL, &dd); /* evaluate final xcur etc. */
	       }
	       else {
		    double pre_min;
		    for (j = 0; j < n; ++j) {
			 pre_lb[j] = MAX(lb[j], x[j] - sigma[j]);
			 pre_ub[j] = MIN(ub[j], x[j] + sigma[j]);
			 xcur[j] = x[j];
		    }
		    nlopt_set_lower_bounds(pre_opt, pre_lb);
		    nlopt_set_upper_bounds(pre_opt, pre_ub);

		    dd.rho = rho; dd.count = 0;
		    save_verbose = ccsa_verbose;
		    ccsa_verbose = 0; /* no recursive verbosity */
		    reti = nlopt_optimize_limited(pre_opt, xcur, &pre_min,
						  0, stop->maxtime
                                                  - (nlopt_seconds()
                                                     - stop->start));
		    ccsa_verbose = save_verbose;
		    if (reti < 0 || reti == NLOPT_MAXTIME_REACHED) {
		    if (VH) vh_fail((int) reti);
			 ret = reti;
			 goto done;
		    }

		    /* evaluate final xcur etc */
		    dd.gval = g0(n, xcur, NULL, &dd);
		    gi(m, dd.gcval, n, xcur, NULL, &dd);
	       }

	       if (verbose) {
		    printf("CCSA dual converged in %d iters to g=%g:\n",
			   dd.count, dd.gval);
		    for (i = 0; i < MIN(verbose, m); ++i)
			 printf("    CCSA y[%u]=%g, gc[%u]=%g\n",
				i, y[i], i, dd.gcval[i]);
	       }

	       fcur = f(n, xcur, dfdx_cur, f_data);
	       ++ *(stop->nevals_p);
		   ++inner_nevals;
	       if (nlopt_stop_forced(stop)) {
		    ret = NLOPT_FORCED_STOP; goto done; }
	       feasible_cur = 1; infeasibility_cur = 0;
	       inner_done = dd.gval >= fcur;
	       if (VH) vh_cons(dd.gval >= fcur, nlopt_isnan(dd.gval));
	       if (nlopt_isnan(fcur) || nlopt_isnan(dd.gval)) {
		    /* the conservative-approximation test below can never
		       succeed, and rho is not increased either: without
		       this, the same point is re-evaluated until the
		       evaluation limit (if any) is reached */
		    ret = NLOPT_ROUNDOFF_LIMITED; goto done; }
	       for (i = ifc = 0; ifc < mfc; ++ifc) {
		    nlopt_eval_constraint(fcval_cur + i, dfcdx_cur + i*n,
					  fc + ifc, n, xcur);
		    i += fc[ifc].m;
		    if (nlopt_stop_forced(stop)) {
			 ret = NLOPT_FORCED_STOP; goto done; }
	       }
	       if (VH) for (i = 0; i < m; ++i) vh_consg(i, dd.gcval[i] >= fcval_cur[i]);
	       for (i = ifc = 0; ifc < mfc; ++ifc) {
		    unsigned i0 = i, inext = i + fc[ifc].m;
		    for (; i < inext; ++i) {
			 feasible_cur = feasible_cur
			      && fcval_cur[i] <= fc[ifc].tol[i-i0];
			 inner_done = inner_done &&
			      (dd.gcval[i] >= fcval_cur[i]);
			 if (fcval_cur[i] > infeasibility_cur)
			      infeasibility_cur = fcval_cur[i];
		    }
	       }

		   inner_done = inner_done || (inner_maxeval > 0 && inner_nevals == inner_maxeval);

	       if ((fcur < *minf && (inner_done || feasible_cur || !feasible))
		    || (!feasible && infeasibility_cur < infeasibility)) {
		    if (verbose && !feasible_cur)
			 printf("CCSA - using infeasible point?\n");
		    dd.fval = *minf = fcur;
		    infeasibility = infeasibility_cur;
		    memcpy(fcval, fcval_cur, sizeof(double)*m);
		    memcpy(x, xcur, sizeof(double)*n);
		    memcpy(dfdx, dfdx_cur, sizeof(double)*n);
		    memcpy(dfcdx, dfcdx_cur, sizeof(double)*n*m);

		    /* once we have reached a feasible solution, the
		       algorithm should never make the solution infeasible
		       again (if inner_done), although the constraints may
		       be violated slightly by rounding errors etc. so we
		       must be a little careful about checking feasibility */
		    if (infeasibility_cur == 0) {
			 if (!feasible) { /* reset upper bounds to infin. */
			      for (i = 0; i < m; ++i) dual_ub[i] = HUGE_VAL;
			      nlopt_set_upper_bounds(dual_opt, dual_ub);
			 }
			 feasible = 1;
		    }

	       }
	       if (nlopt_stop_forced(stop)) ret = NLOPT_FORCED_STOP;
	       else if (nlopt_stop_evals(stop)) ret = NLOPT_MAXEVAL_REACHED;
	       else if (nlopt_stop_time(stop)) ret = NLOPT_MAXTIME_REACHED;
	       else if (feasible && *minf < stop->minf_max)
		    ret = NLOPT_MINF_MAX_REACHED;
	       if (ret != NLOPT_SUCCESS) goto done;

	       if (inner_done) break;

	       if (fcur > dd.gval)
		    rho = MIN(10*rho, 1.1 * (rho + (fcur-dd.gval) / dd.wval));
	       if (VH) vh_rhoinf(nlopt_isinf(rho));
	       if (nlopt_isinf(rho)) { /* e.g. fcur = +Inf however small the step */
		    ret = NLOPT_ROUNDOFF_LIMITED; goto done; }
	       for (i = 0; i < m; ++i)
		    if (fcval_cur[i] > dd.gcval[i])
			 rhoc[i] =
			      MIN(10*rhoc[i],
				  1.1 * (rhoc[i] + (fcval_cur[i]-dd.gcval[i])
					 / dd.wval));

	       if (verbose)
		    printf("CCSA inner iteration: rho -> %g\n", rho);
	       for (i = 0; i < MIN(verbose, m); ++i)
		    printf("                CCSA rhoc[%u] -> %g\n", i,rhoc[i]);
	  }

	  if (nlopt_stop_ftol(stop, fcur, fprev))
	       ret = NLOPT_FTOL_REACHED;
	  if (nlopt_stop_x(stop, xcur, xprev))
	       ret = NLOPT_XTOL_REACHED;
	  if (ret != NLOPT_SUCCESS) goto done;

	  /* update rho and sigma for iteration k+1 */
	  rho = MAX(0.1 * rho, CCSA_RHOMIN);
	  if (verbose)
	       printf("CCSA outer iteration: rho -> %g\n", rho);
	  for (i = 0; i < m; ++i)
	       rhoc[i] = MAX(0.1 * rhoc[i], CCSA_RHOMIN);
	  for (i = 0; i < MIN(verbose, m); ++i)
	       printf("                 CCSA rhoc[%u] -> %g\n", i, rhoc[i]);
	  if (k > 1) {
	       for (j = 0; j < n; ++j) {
		    double dx2 = (xcur[j]-xprev[j]) * (xprev[j]-xprevprev[j]);
		    double gam = dx2 < 0 ? 0.7 : (dx2 > 0 ? 1.2 : 1);
		    sigma[j] *= gam;
		    if (!nlopt_isinf(ub[j]) && !nlopt_isinf(lb[j])) {
			 sigma[j] = MIN(sigma[j], 10*(ub[j]-lb[j]));
			 /* use a smaller lower bound than Svanberg's
			    0.01*(ub-lb), which seems unnecessarily large */
			 sigma[j] = MAX(sigma[j], 1e-8*(ub[j]-lb[j]));
		    }
	       }
	       for (j = 0; j < MIN(verbose, n); ++j)
		    printf("                 CCSA sigma[%u] -> %g\n",
			   j, sigma[j]);
	  }
     }

 done:
     --vh_depth;
     nlopt_destroy(pre_opt);
     if (dd.scratch) free(dd.scratch);
     if (m) {
	  free(dd.prec_data);
	  free(dd.prec);
     }
     free(sigma);
     return ret;
}
