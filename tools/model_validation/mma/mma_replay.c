/* Replay harness: drives the REAL mma_minimize / ccsa_quadratic_minimize (instrumented copies of the HEAD sources, the
   dual solved by the real nested optimizer of libnlopt.a built from HEAD) on pseudo-random problems and prints, for
   every run, the line protocol of `nlopt_model mma` plus the result the C code produced:

       cfg ... / ev ... / fail ... / end / expect <ret> <nevals> <xvec> <minf> / endsearch <ret> <nevals> <xvec> <minf>

   usage: mma_replay <first seed> <count> */
#include <stdio.h>
#include <stdlib.h>
#include <string.h>
#include <math.h>
#include <stdint.h>
#include "nlopt.h"
#include "nlopt-util.h"
#include "mma.h"

int vh_depth = 0;

/* ---------- rng ---------- */
static uint64_t rs;
static uint64_t rnd(void) { rs ^= rs << 13; rs ^= rs >> 7; rs ^= rs << 17; return rs; }
static double urand(void) { return (double) (rnd() >> 11) / 9007199254740992.0; }
static int irand(int n) { return (int) (rnd() % (uint64_t) n); }
static double pick(const double *v, int n) { return v[irand(n)]; }

/* ---------- event record ---------- */
#define MAXN 4
#define MAXM 8
static struct {
    int open;
    double x[MAXN], f, g[MAXM];
    unsigned ng;
    int stop, consF, gvalNaN, consG[MAXM], rhoInf, cb;
} ev;
static unsigned N, M, MFC;
static int force_flag, total_cb, stop_at_cb, hard_cap;
static int nevals;

static void hex(double d) { uint64_t u; memcpy(&u, &d, 8); printf("%016lx", (unsigned long) u); }
static void hexvec(const double *v, unsigned n) {
    unsigned i;
    if (!n) { printf("-"); return; }
    for (i = 0; i < n; ++i) { if (i) printf(","); hex(v[i]); }
}
static void flush_ev(void) {
    unsigned i;
    if (!ev.open) return;
    printf("ev "); hexvec(ev.x, N); printf(" "); hex(ev.f); printf(" %d ", ev.stop); hexvec(ev.g, ev.ng);
    printf(" %d %d ", ev.consF, ev.gvalNaN);
    if (!M) printf("-"); else for (i = 0; i < M; ++i) printf("%d", ev.consG[i]);
    printf(" %d\n", ev.rhoInf);
    ev.open = 0;
}
void vh_fail(int reti) { flush_ev(); printf("fail %d\n", reti); }
void vh_cons(int consF, int gvalNaN) { ev.consF = consF; ev.gvalNaN = gvalNaN; }
void vh_consg(unsigned i, int b) { if (i < MAXM) ev.consG[i] = b; }
void vh_rhoinf(int b) { ev.rhoInf = b; }

/* ---------- the problem ---------- */
static int mode;              /* 0 genuine smooth, 1 noisy */
static int inf_mode;          /* seeds >= 1e9: the objective returns +Inf after the first call (rho overflow path) */
static double pa[MAXN], pb[MAXN], pc[MAXN];          /* objective */
static double cw[MAXM][MAXN], cd[MAXM], cq[MAXM];     /* constraints: cq*|x|^2 + w.x - d */
static double p_nan_f, p_inf_f, p_nan_g, p_big, noise;
static unsigned cdim[MAXM], coff[MAXM];

static void after_cb(void) {
    ++total_cb; ++ev.cb;
    if (!force_flag && ((stop_at_cb > 0 && total_cb == stop_at_cb) || nevals >= hard_cap)) {
        force_flag = 1; ev.stop = ev.cb;
    }
}

static double special(double v, double pn, double pi_) {
    double u = urand();
    if (u < pn) return NAN;
    if (u < pn + pi_) return irand(2) ? HUGE_VAL : -HUGE_VAL;
    if (u < pn + pi_ + p_big) return v * 1e300 * (irand(2) ? 1e10 : 1);
    return v;
}

static double obj(unsigned n, const double *x, double *grad, void *data) {
    unsigned j; double v = 0;
    (void) data;
    flush_ev();
    memset(&ev, 0, sizeof ev); ev.open = 1;
    for (j = 0; j < n; ++j) {
        ev.x[j] = x[j];
        v += pa[j] * (x[j] - pb[j]) * (x[j] - pb[j]) + pc[j] * x[j];
        if (grad) grad[j] = 2 * pa[j] * (x[j] - pb[j]) + pc[j];
    }
    if (mode) {
        v += noise * (urand() - 0.5);
        if (grad) for (j = 0; j < n; ++j) grad[j] += noise * (urand() - 0.5);
        v = special(v, p_nan_f, p_inf_f);
        if (grad && urand() < p_nan_f) grad[irand((int) n)] = NAN;
    }
    if (inf_mode && nevals >= 1) v = HUGE_VAL;
    ev.f = v;
    after_cb();
    return v;
}

static double con1(unsigned i, unsigned n, const double *x, double *grad) {
    unsigned j; double v = -cd[i];
    for (j = 0; j < n; ++j) {
        v += cq[i] * x[j] * x[j] + cw[i][j] * x[j];
        if (grad) grad[j] = 2 * cq[i] * x[j] + cw[i][j];
    }
    if (mode) {
        v += noise * (urand() - 0.5);
        if (grad) for (j = 0; j < n; ++j) grad[j] += noise * (urand() - 0.5);
        v = special(v, p_nan_g, p_inf_f * 0.5);
    }
    return v;
}

static double scon(unsigned n, const double *x, double *grad, void *data) {
    unsigned k = *(unsigned *) data;
    double v = con1(coff[k], n, x, grad);
    ev.g[ev.ng++] = v;
    after_cb();
    return v;
}
static void mcon(unsigned m, double *result, unsigned n, const double *x, double *grad, void *data) {
    unsigned k = *(unsigned *) data, i;
    for (i = 0; i < m; ++i) {
        result[i] = con1(coff[k] + i, n, x, grad ? grad + i * n : NULL);
        ev.g[ev.ng++] = result[i];
    }
    after_cb();
}

static void one(uint64_t seed) {
    static const double tols[] = { 0, 0, 0, 1e-8, 1e-3, 0.5 };
    static const double ftr[] = { 0, 0, 1e-4, 1e-2, 1e-8 };
    static const double fta[] = { 0, 0, 0, 1e-3, 1e-6 };
    static const double xtr[] = { 0, 0, 1e-4, 1e-2, 1e-1 };
    static const double pns[] = { 0, 0, 0.02, 0.1 };
    static const double nz[] = { 0, 0.01, 1, 100 };
    unsigned j, k, i, idx[MAXM];
    int alg, maxeval, inner_maxeval, dual_maxeval;
    double lb[MAXN], ub[MAXN], x[MAXN], minf = 12345.678, tol[MAXM], xtol_abs[MAXN], xw[MAXN], sig[MAXN];
    int use_xta, use_xw, use_sig;
    nlopt_constraint fc[MAXM];
    nlopt_stopping stop;
    nlopt_opt dual_opt;
    nlopt_result ret;

    rs = seed * 0x9E3779B97F4A7C15ull + 0x1234567ull; rnd(); rnd();
    alg = irand(2);
    N = 1 + (unsigned) irand(3);
    MFC = (unsigned) irand(4);
    mode = irand(3) == 0 ? 0 : 1;
    M = 0;
    for (k = 0; k < MFC; ++k) { cdim[k] = irand(3) == 0 ? 2 : 1; coff[k] = M; M += cdim[k]; idx[k] = k; }
    for (j = 0; j < N; ++j) {
        pa[j] = irand(5) == 0 ? -urand() : 0.2 + 2 * urand();
        pb[j] = 4 * urand() - 2; pc[j] = 2 * urand() - 1;
        if (irand(6) == 0) { lb[j] = -HUGE_VAL; ub[j] = HUGE_VAL; } else { lb[j] = -2 - urand(); ub[j] = 2 + urand(); }
        x[j] = 4 * urand() - 2;
        xtol_abs[j] = irand(2) ? 0 : 1e-3; xw[j] = 0.5 + urand(); sig[j] = irand(2) ? 0 : 0.3;
    }
    for (i = 0; i < M; ++i) {
        cq[i] = irand(2) ? 0 : urand();
        for (j = 0; j < N; ++j) cw[i][j] = 2 * urand() - 1;
        cd[i] = 3 * urand() - 1;
        tol[i] = pick(tols, 6);
    }
    p_nan_f = pick(pns, 4) * (irand(2)); p_inf_f = pick(pns, 4) * irand(2); p_nan_g = pick(pns, 4) * irand(2);
    p_big = irand(4) == 0 ? 0.03 : 0; noise = pick(nz, 4);
    for (k = 0; k < MFC; ++k) {
        fc[k].m = cdim[k]; fc[k].pre = NULL; fc[k].f_data = &idx[k]; fc[k].tol = tol + coff[k];
        if (cdim[k] == 1 && irand(2)) { fc[k].f = scon; fc[k].mf = NULL; } else { fc[k].f = NULL; fc[k].mf = mcon; }
    }
    maxeval = irand(8) == 0 ? 0 : 1 + irand(irand(2) ? 12 : 80);
    hard_cap = 60 + irand(80);
    inner_maxeval = irand(10) < 6 ? 0 : (irand(8) == 0 ? -1 : 1 + irand(3));
    dual_maxeval = irand(3) == 0 ? 1 + irand(20) : 100000;
    use_xta = irand(3) == 0; use_xw = irand(4) == 0; use_sig = irand(4) == 0;

    nevals = 0; force_flag = 0; total_cb = 0;
    inf_mode = seed >= 1000000000ull;
    if (inf_mode) { hard_cap = 400; maxeval = 0; dual_maxeval = 200; stop_at_cb = -1; mode = 0; inner_maxeval = 0; }
    if (stop_at_cb != -1) stop_at_cb = irand(4) == 0 ? 1 + irand(40) : 0;
    memset(&stop, 0, sizeof stop);
    stop.n = N;
    stop.minf_max = irand(4) == 0 ? 6 * urand() - 3 : -HUGE_VAL;
    stop.ftol_rel = pick(ftr, 5); stop.ftol_abs = pick(fta, 5); stop.xtol_rel = pick(xtr, 5);
    stop.xtol_abs = use_xta ? xtol_abs : NULL; stop.x_weights = use_xw ? xw : NULL;
    stop.nevals_p = &nevals; stop.maxeval = maxeval; stop.maxtime = 0; stop.start = nlopt_seconds();
    stop.force_stop = &force_flag; stop.stop_msg = NULL;

    dual_opt = nlopt_create(NLOPT_LD_MMA, M);
    nlopt_set_ftol_rel(dual_opt, 1e-14); nlopt_set_ftol_abs(dual_opt, 0.0);
    nlopt_set_xtol_rel(dual_opt, 0.0); nlopt_set_xtol_abs1(dual_opt, 0.0);
    nlopt_set_maxeval(dual_opt, dual_maxeval);

    printf("cfg alg=%s n=%u x0=", alg ? "ccsa" : "mma", N); hexvec(x, N);
    printf(" tol="); hexvec(tol, M);
    printf(" mfc=%u inner_maxeval=%d maxeval=%d stopval=", MFC, inner_maxeval, maxeval); hex(stop.minf_max);
    printf(" ftol_rel="); hex(stop.ftol_rel); printf(" ftol_abs="); hex(stop.ftol_abs);
    printf(" xtol_rel="); hex(stop.xtol_rel);
    printf(" xtol_abs="); if (use_xta) hexvec(xtol_abs, N); else printf("-");
    printf(" xw="); if (use_xw) hexvec(xw, N); else printf("-");
    printf("\n");

    memset(&ev, 0, sizeof ev);
    vh_depth = 0;
    if (alg == 0)
        ret = mma_minimize(N, obj, NULL, MFC, fc, lb, ub, x, &minf, &stop, dual_opt, inner_maxeval, 0, 1.0, use_sig ? sig : NULL);
    else
        ret = ccsa_quadratic_minimize(N, obj, NULL, MFC, fc, NULL, lb, ub, x, &minf, &stop, dual_opt, inner_maxeval, 0, 1.0,
                                      use_sig ? sig : NULL);
    flush_ev();
    nlopt_destroy(dual_opt);
    printf("end\nexpect %d %d ", (int) ret, nevals); hexvec(x, N); printf(" "); hex(minf); printf("\n");
    printf("endsearch %d %d ", (int) ret, nevals); hexvec(x, N); printf(" "); hex(minf); printf("\n");
}

int main(int argc, char **argv) {
    uint64_t s0 = argc > 1 ? strtoull(argv[1], 0, 10) : 1, cnt = argc > 2 ? strtoull(argv[2], 0, 10) : 1, s;
    for (s = s0; s < s0 + cnt; ++s) one(s);
    return 0;
}
