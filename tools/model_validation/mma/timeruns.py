import subprocess, sys, time
lines=[l for l in open(sys.argv[1]).read().splitlines() if not l.startswith("WARNING")]
runs=[];cur=[]
for l in lines:
    cur.append(l)
    if l.startswith("endsearch"): runs.append(cur); cur=[]
big=[r for r in runs if sum(1 for l in r if l.startswith("ev"))>=int(sys.argv[2])]
print(len(big),"runs")
for r in big[:int(sys.argv[3])]:
    feed="\n".join(l for l in r if not l.startswith("expect"))+"\n"
    t=time.time()
    try:
        out=subprocess.run(["../.lake/build/bin/nlopt_model","mma"],input=feed,capture_output=True,text=True,timeout=20).stdout
        dt=time.time()-t
        if dt>0.5: print(round(dt,2), r[0][:150]); 
    except subprocess.TimeoutExpired:
        print("TIMEOUT", r[0][:220]); open("/tmp/claude-0/slow.txt","w").write(feed)
