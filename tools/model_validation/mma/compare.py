#!/usr/bin/env python3
"""Run mma_replay over a seed range, feed the protocol to `nlopt_model mma`, compare `end` with `expect`, check `endsearch`=ok."""
import subprocess, sys, collections
s0, cnt = int(sys.argv[1]), int(sys.argv[2])
out = subprocess.run(["./mma_replay", str(s0), str(cnt)], capture_output=True, text=True).stdout.splitlines()
lines = [l for l in out if not l.startswith("WARNING")]
feed = [l for l in lines if not l.startswith("expect")]
expects = [l.split()[1:] for l in lines if l.startswith("expect")]
res = subprocess.run(["../.lake/build/bin/nlopt_model", "mma"], input="\n".join(feed) + "\n", capture_output=True, text=True).stdout.splitlines()
res = [l for l in res if not l.startswith("WARNING")]
assert len(res) == 2 * len(expects), (len(res), len(expects))
# split runs for reporting
runs = []; cur = []
for l in lines:
    cur.append(l)
    if l.startswith("endsearch"): runs.append(cur); cur = []
bad = 0; codes = collections.Counter(); letters = collections.Counter(); nev = 0
for i, ex in enumerate(expects):
    got = res[2 * i].split(); srch = res[2 * i + 1]
    codes[ex[0]] += 1; nev += int(ex[1])
    ok = got[:4] == ex and got[4] == "0" and got[5] == "0" and srch.startswith("ok")
    if srch.startswith("ok"):
        for ch in srch[3:]: letters[ch] += 1
    if not ok:
        bad += 1
        if bad <= 5:
            print("MISMATCH seed", s0 + i, "\n  expect", ex, "\n  got   ", got, "\n  search", srch)
            print("\n".join("    " + l[:200] for l in runs[i]))
print(f"runs={len(expects)} bad={bad} events={nev} codes={dict(sorted(codes.items()))} letters={dict(letters)}")
