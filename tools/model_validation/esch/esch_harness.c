#include <stdio.h>
#include <stdlib.h>
#include <string.h>
#include <math.h>
#include <stdint.h>
#include "nlopt.h"
/* scenario: argv: n pop maxeval stopval_mode forced_at valmode seed */
static nlopt_opt OPT; static int cnt=0, forced_at=0, valmode=0; static unsigned rs=1;
static unsigned rnd(void){ rs = rs*1103515245u+12345u; return (rs>>8)&0xffffff; }
static void hx(double d){ uint64_t u; memcpy(&u,&d,8); printf("%016llx",(unsigned long long)u); }
static double f(unsigned n, const double*x, double*g, void*d){
  double v; unsigned r=rnd(); cnt++;
  switch(valmode){
   case 0: v = (double)(r%1000)/10.0; break;
   case 1: v = (r%5==0)? NAN : (double)(r%100); break;
   case 2: v = NAN; break;
   case 3: v = (r%3==0)? INFINITY : ((r%3==1)? NAN : 50.0+(r%7)); break;
   case 4: v = INFINITY; break;
   case 5: v = (r%4==0)? -INFINITY : (double)(r%10); break;
   default: v = (double)(r%4); break; /* many ties */
  }
  int fs = (forced_at && cnt==forced_at);
  if (fs) nlopt_force_stop(OPT);
  printf("ev ");
  for(unsigned i=0;i<n;i++){ if(i) printf(","); hx(x[i]); }
  printf(" "); hx(v); printf(" %d\n", fs);
  return v;
}
int main(int argc,char**argv){
  unsigned n=atoi(argv[1]); int pop=atoi(argv[2]); int maxeval=atoi(argv[3]); int svm=atoi(argv[4]);
  forced_at=atoi(argv[5]); valmode=atoi(argv[6]); rs=atoi(argv[7]);
  double lb[8],ub[8],x[8]; for(unsigned i=0;i<n;i++){lb[i]=-1.0-(double)i;ub[i]=2.0+(double)i;x[i]=0.25*i;}
  OPT=nlopt_create(NLOPT_GN_ESCH,n);
  nlopt_set_lower_bounds(OPT,lb); nlopt_set_upper_bounds(OPT,ub);
  nlopt_set_min_objective(OPT,f,NULL);
  nlopt_set_maxeval(OPT,maxeval);
  nlopt_set_population(OPT,pop);
  nlopt_set_ftol_rel(OPT,0.5); nlopt_set_xtol_rel(OPT,0.5);
  double sv = -HUGE_VAL;
  if(svm==1) sv=20.0; else if(svm==2) sv=1.0; else if(svm==3) sv=HUGE_VAL; else if (svm==4) sv=NAN; else if (svm==5) sv=0.0;
  nlopt_set_stopval(OPT,sv);
  printf("cfg n=%u pop=%d maxeval=%d stopval=",n,pop,maxeval); hx(sv); printf(" x0=");
  for(unsigned i=0;i<n;i++){ if(i) printf(","); hx(x[i]); } printf("\n");
  nlopt_srand(rs);
  double mf=12345.0; int ret=nlopt_optimize(OPT,x,&mf);
  printf("end\n"); if(nlopt_get_errmsg(OPT)) fprintf(stderr,"msg: %s\n",nlopt_get_errmsg(OPT));
  fprintf(stderr,"%d %d ",ret,nlopt_get_numevals(OPT));
  for(unsigned i=0;i<n;i++){ uint64_t u; memcpy(&u,&x[i],8); fprintf(stderr,"%s%016llx",i?",":"",(unsigned long long)u);}
  { uint64_t u; memcpy(&u,&mf,8); fprintf(stderr," %016llx\n",(unsigned long long)u);}
  return 0;
}
