#!/bin/bash
# usage: cmp.sh args...  -> compares C result with model
out=$(./h "$@" 2>/tmp/esch_c_res)
cres=$(grep -v '^msg' /tmp/esch_c_res)
mres=$(echo "$out" | /var/tmp/lw_esch/.lake/build/bin/nlopt_model esch)
# model: ret nevals x minf short ; C: ret nevals x minf
set -- $mres
m="$1 $2 $3 $4"; short=$5
[ "$4" = "-" ] && m="$1 $2 $3 7ff0000000000000"
if [ "$m" = "$cres" ] && [ "$short" = "0" ]; then echo OK; else echo "MISMATCH args=[$ARGS] C=[$cres] M=[$mres]"; fi
