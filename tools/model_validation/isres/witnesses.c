/* Replays the four concrete witnesses of Props/DrvIsres.lean on isres_minimize (compiled from /repo/src). */
#include <stdio.h>
#include <string.h>
#include <math.h>
#include "nlopt-util.h"
#include "isres.h"
typedef struct { const double *f, *g, *h; int k; } scr;
static double obj(unsigned n, const double *x, double *gr, void *d) { scr *s = d; (void)n; (void)x; (void)gr; return s->f[s->k++]; }
static double gc(unsigned n, const double *x, double *gr, void *d) { scr *s = d; (void)n; (void)x; (void)gr; return s->g[s->k - 1]; }
static double hc(unsigned n, const double *x, double *gr, void *d) { scr *s = d; (void)n; (void)x; (void)gr; return s->h[s->k - 1]; }
static void g2(unsigned m, double *r, unsigned n, const double *x, double *gr, void *d) { (void)m; (void)n; (void)x; (void)gr; (void)d; r[0] = NAN; r[1] = 1; }
static void go(const char *name, const double *f, const double *g, const double *h, int vec, int maxeval, double stopval) {
    scr s = { f, g, h, 0 }; double tol[2] = {0, 0}, lb = -1, ub = 2, x = 0.25, minf = 777; int nev = 0, force = 0;
    nlopt_constraint fc, hh; nlopt_stopping st; nlopt_result r;
    memset(&fc, 0, sizeof fc); memset(&hh, 0, sizeof hh); memset(&st, 0, sizeof st);
    fc.m = vec ? 2 : 1; fc.tol = tol; fc.f_data = &s; if (vec) fc.mf = g2; else fc.f = gc;
    hh.m = 1; hh.tol = tol; hh.f_data = &s; hh.f = hc;
    st.n = 1; st.minf_max = stopval; st.nevals_p = &nev; st.maxeval = maxeval; st.force_stop = &force;
    nlopt_init_genrand(1);
    r = isres_minimize(1, obj, &s, 1, &fc, h ? 1 : 0, &hh, &lb, &ub, &x, &minf, &st, 0);
    printf("%-22s ret=%d nevals=%d x=%g (x0=0.25) minf=%g\n", name, (int)r, nev, x, minf);
}
int main(void) {
    { double f[] = {1, 2}, g[] = {1e-170, -1}; go("underflow (T4 false)", f, g, NULL, 0, 2, -HUGE_VAL); }
    { double f[] = {2, 1}, g[] = {2, 1}; go("ftol by stopval=4", f, g, NULL, 0, 0, 4); }
    { double f[] = {1}; go("NaN penalty (T3 init)", f, NULL, NULL, 1, 1, -HUGE_VAL); }
    { double f[] = {-HUGE_VAL, 7, -HUGE_VAL, 100}, g[] = {-1, -1, 1, -1}, h[] = {2, 0, 0, 0}; go("equality (-Inf)", f, g, h, 0, 4, -HUGE_VAL); }
    { double f[] = {5, 7, 4, 100}, g[] = {-1, -1, 1, -1}, h[] = {2, 0, 0, 0}; go("equality (finite)", f, g, h, 0, 4, -HUGE_VAL); }
    return 0;
}
