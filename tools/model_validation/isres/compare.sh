#!/bin/sh
# usage: compare.sh <seed> <nruns>  -- runs the C harness, replays through `nlopt_model isres`, compares
D=$(dirname "$0")
R=/repo/src
SRC="$R/algs/isres/isres.c $R/util/stop.c $R/util/mt19937ar.c $R/util/qsort_r.c $R/util/timer.c"
INC="-I$R/util -I$R/api -I$R/algs/isres -I/repo/_build"
[ -x "$D/isres_replay" ] || gcc -O1 -o "$D/isres_replay" "$D/isres_replay.c" $SRC $INC -lm
[ -x "$D/witnesses" ] || gcc -O1 -o "$D/witnesses" "$D/witnesses.c" $SRC $INC -lm
"$D/isres_replay" "$1" "$2" > /tmp/isres_trace_$1.txt
grep '^expect' /tmp/isres_trace_$1.txt | sed 's/^expect //' > /tmp/isres_expect_$1.txt
grep -v '^expect' /tmp/isres_trace_$1.txt | "$D/../.lake/build/bin/nlopt_model" isres > /tmp/isres_model_$1.txt
if cmp -s /tmp/isres_expect_$1.txt /tmp/isres_model_$1.txt; then echo "seed $1: $(wc -l < /tmp/isres_expect_$1.txt) runs agree"; else echo "seed $1: MISMATCH"; diff /tmp/isres_expect_$1.txt /tmp/isres_model_$1.txt | head -10; fi
