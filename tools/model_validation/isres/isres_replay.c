/* Differential-test harness for the Lean model `nlopt_model isres`.
   Calls isres_minimize (compiled from /repo/src, unchanged) with scripted pseudo-random callbacks and prints, per run,
   the protocol lines (cfg / ev... / end) followed by a line `expect <ret> <nevals> <xvec> <minf> 0`.
   Usage: isres_replay <seed> <nruns>                                                                       */
#include <stdio.h>
#include <stdlib.h>
#include <string.h>
#include <math.h>
#include <stdint.h>
#include "nlopt-util.h"
#include "isres.h"

static uint64_t rs;
static uint64_t rnd(void) { rs ^= rs << 13; rs ^= rs >> 7; rs ^= rs << 17; return rs; }
static unsigned rn(unsigned k) { return (unsigned)(rnd() % k); }

static const char *hx(double d) { static char b[8][20]; static int i; uint64_t u; memcpy(&u, &d, 8); i = (i + 1) & 7; sprintf(b[i], "%016llx", (unsigned long long)u); return b[i]; }

/* small value palettes so that ties, NaN, Inf, underflow occur often */
static double fpal(void) {
    static const double v[] = {0, 1, 2, 1, -1, 0.5, 3, 2, 1, 0, 5, 7, 4, 100, -0.0};
    unsigned k = rn(40);
    if (k < 15) return v[k];
    if (k == 15) return NAN;
    if (k == 16) return HUGE_VAL;
    if (k == 17) return -HUGE_VAL;
    return (double)((int)rn(9) - 4) * 0.25;
}
static double gpal(void) {
    unsigned k = rn(24);
    if (k == 0) return NAN;
    if (k == 1) return 1e-170;
    if (k == 2) return 1e200;
    if (k == 3) return HUGE_VAL;
    if (k == 4) return 1e-9;
    if (k == 5) return -0.0;
    return (double)((int)rn(9) - 5) * 0.5;
}

static int n, m, p, mdim[4], pdim[4];
static int force_flag, ncb_in_event, stop_event, stop_cb; /* raise the flag in event stop_event at callback stop_cb */
static int evno;
static int open_ev; static char gsbuf[4096], hsbuf[4096], evhead[1024]; static int stopseen;

static void flush_ev(void) {
    if (!open_ev) return;
    printf("%s %d %s %s\n", evhead, stopseen, gsbuf[0] ? gsbuf : "-", hsbuf[0] ? hsbuf : "-");
    open_ev = 0;
}
static void maybe_stop(void) {
    ++ncb_in_event;
    if (evno == stop_event && ncb_in_event == stop_cb) { force_flag = 1; stopseen = ncb_in_event; }
}
static double obj(unsigned nn, const double *x, double *grad, void *d) {
    unsigned i; double f = fpal(); char *q = evhead;
    (void)grad; (void)d;
    flush_ev();
    ++evno; ncb_in_event = 0; stopseen = 0; open_ev = 1; gsbuf[0] = hsbuf[0] = 0;
    q += sprintf(q, "ev ");
    for (i = 0; i < nn; ++i) q += sprintf(q, "%s%s", i ? "," : "", hx(x[i]));
    sprintf(q, " %s", hx(f));
    maybe_stop();
    return f;
}
static void mcon(unsigned mm, double *result, unsigned nn, const double *x, double *grad, void *d) {
    unsigned i; char *buf = d ? hsbuf : gsbuf; char *q = buf + strlen(buf);
    (void)nn; (void)x; (void)grad;
    if (buf[0]) q += sprintf(q, ";");
    for (i = 0; i < mm; ++i) { result[i] = gpal(); q += sprintf(q, "%s%s", i ? "," : "", hx(result[i])); }
    maybe_stop();
}
static double scon(unsigned nn, const double *x, double *grad, void *d) {
    double r; mcon(1, &r, nn, x, grad, d); return r;
}

int main(int argc, char **argv) {
    int run, nruns = argc > 2 ? atoi(argv[2]) : 10, i, j;
    rs = (argc > 1 ? strtoull(argv[1], 0, 10) : 1) * 2654435761u + 88172645463325252ull;
    for (run = 0; run < nruns; ++run) {
        double lb[3], ub[3], x[3], minf = 12345, xtol_abs[3], xw[3], gtol[4][3], htol[4][3];
        nlopt_constraint fc[4], h[4]; nlopt_stopping stop; int nevals = 0, pop; nlopt_result ret;
        static const double tolpal[] = {0, 0, 1e-8, 0.5, 1};
        static const double svpal[] = {-HUGE_VAL, -HUGE_VAL, 0.5, 2, 4, 1, HUGE_VAL};
        static const double ftpal[] = {0, 0, 0, 1e-4, 0.5, 1, 2};
        memset(fc, 0, sizeof fc); memset(h, 0, sizeof h);
        n = 1 + rn(3); m = rn(3); p = rn(4) == 0 ? 1 + rn(2) : 0;
        for (j = 0; j < n; ++j) { lb[j] = -1 - (double)rn(2); ub[j] = 1 + (double)rn(3); x[j] = (double)rn(3) * 0.5 - 0.5; xtol_abs[j] = ftpal[rn(7)]; xw[j] = 1 + rn(2); }
        if (rn(25) == 0) ub[rn(n)] = HUGE_VAL;
        for (i = 0; i < m; ++i) { mdim[i] = 1 + rn(2); for (j = 0; j < mdim[i]; ++j) gtol[i][j] = tolpal[rn(5)];
            fc[i].m = mdim[i]; fc[i].tol = gtol[i]; fc[i].f_data = NULL;
            if (mdim[i] == 1 && rn(2)) fc[i].f = scon; else fc[i].mf = mcon; }
        for (i = 0; i < p; ++i) { pdim[i] = 1 + rn(2); for (j = 0; j < pdim[i]; ++j) htol[i][j] = tolpal[rn(5)];
            h[i].m = pdim[i]; h[i].tol = htol[i]; h[i].f_data = (void *)1;
            if (pdim[i] == 1 && rn(2)) h[i].f = scon; else h[i].mf = mcon; }
        pop = rn(4) == 0 ? 0 : (rn(30) == 0 ? -1 : 1 + rn(6));
        stop.n = n; stop.minf_max = svpal[rn(7)]; stop.ftol_rel = ftpal[rn(7)]; stop.ftol_abs = ftpal[rn(7)];
        stop.xtol_rel = ftpal[rn(7)]; stop.xtol_abs = rn(2) ? xtol_abs : NULL; stop.x_weights = rn(3) == 0 ? xw : NULL;
        stop.nevals_p = &nevals; stop.maxeval = 1 + rn(60); stop.maxtime = 0; stop.start = 0;
        force_flag = 0; stop.force_stop = &force_flag; stop.stop_msg = NULL;
        stop_event = rn(3) == 0 ? 1 + rn(40) : 0; stop_cb = 1 + rn(1 + m + p);
        evno = 0; open_ev = 0;
        printf("cfg n=%d pop=%d maxeval=%d stopval=%s ftol_rel=%s ftol_abs=%s xtol_rel=%s", n, pop, stop.maxeval,
               hx(stop.minf_max), hx(stop.ftol_rel), hx(stop.ftol_abs), hx(stop.xtol_rel));
        printf(" xtol_abs="); if (stop.xtol_abs) for (j = 0; j < n; ++j) printf("%s%s", j ? "," : "", hx(xtol_abs[j])); else printf("-");
        printf(" xw="); if (stop.x_weights) for (j = 0; j < n; ++j) printf("%s%s", j ? "," : "", hx(xw[j])); else printf("-");
        printf(" x0="); for (j = 0; j < n; ++j) printf("%s%s", j ? "," : "", hx(x[j]));
        printf(" lb="); for (j = 0; j < n; ++j) printf("%s%s", j ? "," : "", hx(lb[j]));
        printf(" ub="); for (j = 0; j < n; ++j) printf("%s%s", j ? "," : "", hx(ub[j]));
        printf(" gtol="); if (!m) printf("-"); for (i = 0; i < m; ++i) { if (i) printf(";"); for (j = 0; j < mdim[i]; ++j) printf("%s%s", j ? "," : "", hx(gtol[i][j])); }
        printf(" htol="); if (!p) printf("-"); for (i = 0; i < p; ++i) { if (i) printf(";"); for (j = 0; j < pdim[i]; ++j) printf("%s%s", j ? "," : "", hx(htol[i][j])); }
        printf("\n");
        nlopt_init_genrand((unsigned long)(run + 17));
        ret = isres_minimize(n, obj, NULL, m, fc, p, h, lb, ub, x, &minf, &stop, pop);
        flush_ev();
        printf("end\n");
        printf("expect %d %d ", (int)ret, nevals);
        for (j = 0; j < n; ++j) printf("%s%s", j ? "," : "", hx(x[j]));
        printf(" %s 0\n", hx(minf));
    }
    return 0;
}
