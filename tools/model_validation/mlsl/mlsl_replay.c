/* Differential-test harness for the Lean model `nlopt_model mlsl`.
   Calls mlsl_minimize (the unchanged HEAD source replay/src/mlsl.c, #included so that its static `gam` can be used for
   the R_prefactor cross-check) with a scripted pseudo-random objective, the real Sobol' / Mersenne-Twister sample
   generators and a MOCK local optimizer (nlopt_optimize_limited and the nlopt_set_... calls on local_opt are defined
   here), and prints, per run, the protocol lines (cfg / rpre / eval / sub ... / end / budgets) and the lines
   `expect <R_prefactor>`, `expect <ret> <nevals> <xvec> <minf> 0 0`, `expect <budgets>`.
   Usage: mlsl_replay <seed> <nruns> [nan]      (third argument: also produce NaN objective values)              */
#include <stdio.h>
#include <stdlib.h>
#include <string.h>
#include <math.h>
#include <stdint.h>
#include "src/mlsl.c"

static uint64_t rs;
static uint64_t rnd(void) { rs ^= rs << 13; rs ^= rs >> 7; rs ^= rs << 17; return rs; }
static unsigned rn(unsigned k) { return (unsigned)(rnd() % k); }

static const char *hx(double d) { static char b[16][20]; static int i; uint64_t u; memcpy(&u, &d, 8); i = (i + 1) & 15; sprintf(b[i], "%016llx", (unsigned long long)u); return b[i]; }
static void pvec(int n, const double *x) { int i; if (!n) printf("-"); for (i = 0; i < n; ++i) printf("%s%s", i ? "," : "", hx(x[i])); }

static int n, with_nan, fmode, lmode, longrun;
static double lbv[4], ubv[4], ctr[4];
static int force_flag, stop_eval, sub_stop_run, sub_stop_call, ownno, in_sub, subno, subcall, respect_budget;
static char budgets[1 << 16];

static double fval(const double *x) {
    static const double v[] = {0, 1, 2, 1, -1, 0.5, 3, 2, 1, 0, 5, 7, 4, 100, -0.0, 2, 2, 3, 3};
    double s = 0; int i; unsigned k;
    if (with_nan && rn(25) == 0) return NAN;
    if (rn(60) == 0) return HUGE_VAL;
    if (rn(200) == 0) return -HUGE_VAL;
    if (fmode == 0) { k = rn(24); return k < 19 ? v[k] : (double)((int)rn(9) - 4) * 0.25; }
    for (i = 0; i < n; ++i) s += (x[i] - ctr[i]) * (x[i] - ctr[i]);
    if (fmode == 1) return floor(s * 8) / 8;
    return s;
}

static double obj(unsigned nn, const double *x, double *grad, void *d) {
    double f = fval(x);
    (void)grad; (void)d;
    if (in_sub) { ++subcall; if (subno == sub_stop_run && subcall == sub_stop_call) force_flag = 1; return f; }
    ++ownno;
    if (ownno == stop_eval) force_flag = 1;
    printf("eval "); pvec((int)nn, x); printf(" %s %d\n", hx(f), force_flag ? 1 : 0);
    return f;
}

/* ---- mock local optimizer ---- */
static nlopt_func sub_f; static void *sub_f_data;
nlopt_result NLOPT_STDCALL nlopt_set_min_objective(nlopt_opt opt, nlopt_func f, void *f_data) { (void)opt; sub_f = f; sub_f_data = f_data; return NLOPT_SUCCESS; }
nlopt_result NLOPT_STDCALL nlopt_set_lower_bounds(nlopt_opt opt, const double *lb) { (void)opt; (void)lb; return NLOPT_SUCCESS; }
nlopt_result NLOPT_STDCALL nlopt_set_upper_bounds(nlopt_opt opt, const double *ub) { (void)opt; (void)ub; return NLOPT_SUCCESS; }
nlopt_result NLOPT_STDCALL nlopt_set_stopval(nlopt_opt opt, double v) { (void)opt; (void)v; return NLOPT_SUCCESS; }

nlopt_result nlopt_optimize_limited(nlopt_opt opt, double *x, double *minf, int maxeval, double maxtime)
{
    static const int retpal[] = {1, 1, 2, 3, 3, 4, 4, 4, 4, 4, 4, 3, 3, 5, 5, 6, 1, 4, 3, -1, -2, -4, -5, 0};
    int used, i, j, ret; double xt[4], x0[4], f; char *q = budgets + strlen(budgets);
    (void)opt; (void)maxtime;
    sprintf(q, "%s%d", budgets[0] ? "," : "", maxeval);
    memcpy(x0, x, sizeof(double) * n);
    ++subno; subcall = 0; in_sub = 1;
    used = rn(8);
    if (respect_budget && maxeval > 0 && used > maxeval) used = maxeval;
    f = HUGE_VAL;
    for (i = 0; i < used; ++i) {
        for (j = 0; j < n; ++j) xt[j] = lbv[j] + (ubv[j] - lbv[j]) * (rn(9) / 8.0);
        f = sub_f((unsigned)n, xt, NULL, sub_f_data);
        if (force_flag && rn(3)) { ++i; break; }
    }
    used = i;
    in_sub = 0;
    switch (lmode) {
    case 0: for (j = 0; j < n; ++j) x[j] = lbv[j] + (ubv[j] - lbv[j]) * (rn(9) / 8.0); break;       /* a grid point */
    case 1: for (j = 0; j < n; ++j) x[j] = ctr[j] + (rn(3) ? 0 : 0.125 * ((int)rn(3) - 1)); break;  /* near the attractor */
    default: if (rn(2)) for (j = 0; j < n; ++j) x[j] = 0.5 * (x[j] + ctr[j]); break;                /* half way / unchanged */
    }
    if (rn(3)) f = fval(x);
    if (rn(6) == 0) f = (double)rn(4);
    *minf = f;
    ret = retpal[rn(sizeof retpal / sizeof retpal[0])];
    if (longrun && ret < 0 && rn(8)) ret = 4;
    if (force_flag && rn(4)) ret = NLOPT_FORCED_STOP;
    printf("sub %d ", ret); pvec(n, x0); printf(" "); pvec(n, x); printf(" %s %d %d\n", hx(*minf), used, force_flag ? 1 : 0);
    return (nlopt_result)ret;
}

int main(int argc, char **argv) {
    int run, nruns = argc > 2 ? atoi(argv[2]) : 10, j;
    with_nan = argc > 3;
    rs = (argc > 1 ? strtoull(argv[1], 0, 10) : 1) * 2654435761u + 88172645463325252ull;
    nlopt_init_genrand(12345UL);
    for (run = 0; run < nruns; ++run) {
        double x[4], minf = 12345, rp; nlopt_stopping stop; int nevals = 0, pop, lds; nlopt_result ret;
        static const double svpal[] = {-HUGE_VAL, -HUGE_VAL, -HUGE_VAL, -HUGE_VAL, 0.5, -0.5, 0.125, HUGE_VAL};
        static const int poppal[] = {0, 0, 1, 2, 3, 5, 8, 1, 2, 0, -1};
        n = 1 + rn(3); if (rn(10) == 0) n = 4;
        fmode = rn(3); lmode = rn(3); longrun = rn(2);
        respect_budget = rn(4) != 0;
        for (j = 0; j < n; ++j) {
            unsigned k = rn(5);
            lbv[j] = k == 0 ? -2 : 0; ubv[j] = k == 0 ? 3 : k == 1 ? 0.25 : 1;
            if (rn(12) == 0) ubv[j] = lbv[j];                   /* a degenerate coordinate */
            ctr[j] = lbv[j] + (ubv[j] - lbv[j]) * (rn(9) / 8.0);
            x[j] = lbv[j] + (ubv[j] - lbv[j]) * (rn(9) / 8.0);
        }
        pop = poppal[rn(11)]; lds = rn(2);
        stop.n = n; stop.minf_max = svpal[rn(8)]; stop.ftol_rel = 0; stop.ftol_abs = 0; stop.xtol_rel = 0;
        stop.xtol_abs = NULL; stop.x_weights = NULL;
        stop.nevals_p = &nevals; stop.maxeval = rn(8) == 0 ? (rn(2) ? 0 : -3) : 1 + rn(120); stop.maxtime = 0; stop.start = 0;
        if (longrun) { if (rn(4)) stop.minf_max = -HUGE_VAL; if (stop.maxeval > 0) stop.maxeval += 100; }
        force_flag = 0; stop.force_stop = &force_flag; stop.stop_msg = NULL;
        stop_eval = (stop.maxeval <= 0 || rn(3) == 0) ? 1 + rn(longrun ? 150 : 60) : 0;
        sub_stop_run = (stop.maxeval <= 0 || rn(5) == 0) ? 1 + rn(6) : 0; sub_stop_call = 1 + rn(4);
        ownno = 0; subno = 0; in_sub = 0; budgets[0] = 0;
        printf("cfg n=%d pop=%d maxeval=%d stopval=%s x0=", n, pop, stop.maxeval, hx(stop.minf_max)); pvec(n, x);
        printf(" lb="); pvec(n, lbv); printf(" ub="); pvec(n, ubv); printf("\nrpre\n");
        rp = sqrt(2./K2PI) * pow(gam(n) * MLSL_SIGMA, 1.0/n);
        for (j = 0; j < n; ++j) rp *= pow(ubv[j] - lbv[j], 1.0/n);
        ret = mlsl_minimize(n, obj, NULL, lbv, ubv, x, &minf, &stop, (nlopt_opt)&stop, pop, lds);
        printf("end\nbudgets\n");
        printf("expect %s\n", hx(rp));
        printf("expect %d %d ", (int)ret, nevals); pvec(n, x);
        printf(" %s 0 0\n", ret == NLOPT_INVALID_ARGS && nevals == 0 ? "-" : hx(minf));
        printf("expect %s\n", budgets[0] ? budgets : "-");
        if (stop.stop_msg) { free(stop.stop_msg); }
    }
    return 0;
}
