/* Replays the concrete witnesses of NloptModel/Props/DrvMlsl.lean on mlsl_minimize itself (unchanged HEAD source
   replay/src/mlsl.c), n = 1, box [0,1], x0 = 0.5, pseudo-random variant (lds = 0) with a SCRIPTED nlopt_urand (so that the
   sample points are the ones of the witnesses), a scripted objective and a scripted mock local optimizer.
   Prints the protocol lines (to be piped through `nlopt_model mlsl`) and `expect` lines, like mlsl_replay.c.        */
#include <stdio.h>
#include <stdlib.h>
#include <string.h>
#include <math.h>
#include <stdint.h>
#include "src/mlsl.c"

static const char *hx(double d) { static char b[16][20]; static int i; uint64_t u; memcpy(&u, &d, 8); i = (i + 1) & 15; sprintf(b[i], "%016llx", (unsigned long long)u); return b[i]; }

typedef struct { int ret; double x, f; int used, raise; } subscript;
typedef struct { const char *name; int pop, maxeval; double stopval; double samples[8]; double fs[8]; int forced_at; subscript subs[4]; } wit;

static const wit *W; static int ownno, subno, sampno, in_sub, force_flag; static char budgets[256];

double nlopt_urand(double a, double b) { (void)a; (void)b; return W->samples[sampno++]; }

static double obj(unsigned n, const double *x, double *grad, void *d) {
    double f; (void)n; (void)grad; (void)d;
    if (in_sub) { if (W->subs[subno - 1].raise) force_flag = 1; return 9; }
    f = W->fs[ownno++];
    if (ownno == W->forced_at) force_flag = 1;
    printf("eval %s %s %d\n", hx(x[0]), hx(f), force_flag);
    return f;
}
static nlopt_func sub_f; static void *sub_f_data;
nlopt_result NLOPT_STDCALL nlopt_set_min_objective(nlopt_opt opt, nlopt_func f, void *f_data) { (void)opt; sub_f = f; sub_f_data = f_data; return NLOPT_SUCCESS; }
nlopt_result NLOPT_STDCALL nlopt_set_lower_bounds(nlopt_opt opt, const double *lb) { (void)opt; (void)lb; return NLOPT_SUCCESS; }
nlopt_result NLOPT_STDCALL nlopt_set_upper_bounds(nlopt_opt opt, const double *ub) { (void)opt; (void)ub; return NLOPT_SUCCESS; }
nlopt_result NLOPT_STDCALL nlopt_set_stopval(nlopt_opt opt, double v) { (void)opt; (void)v; return NLOPT_SUCCESS; }
nlopt_result nlopt_optimize_limited(nlopt_opt opt, double *x, double *minf, int maxeval, double maxtime) {
    const subscript *s = &W->subs[subno++]; double x0 = x[0], xt = 0.5; int i;
    (void)opt; (void)maxtime;
    sprintf(budgets + strlen(budgets), "%s%d", budgets[0] ? "," : "", maxeval);
    in_sub = 1; for (i = 0; i < s->used; ++i) sub_f(1, &xt, NULL, sub_f_data); in_sub = 0;
    x[0] = s->x; *minf = s->f;
    printf("sub %d %s %s %s %d %d\n", s->ret, hx(x0), hx(x[0]), hx(*minf), s->used, force_flag);
    return (nlopt_result)s->ret;
}

static const wit wits[] = {
 {"nevals_bound_attained", 1, 5, -HUGE_VAL, {0.25}, {3, 1}, 0, {{4, 0.125, 0.5, 3, 0}}},
 {"nevals_unbounded_without_respect", 1, 5, -HUGE_VAL, {0.25}, {3, 1}, 0, {{4, 0.125, 0.5, 1000, 0}}},
 {"forced_stop_own", 1, 0, -HUGE_VAL, {0.25, 0.75}, {3, 1, 2}, 2, {{0}}},
 {"forced_stop_sub (code >= 0)", 1, 0, -HUGE_VAL, {0.25, 0.75}, {3, 1, 2}, 0, {{4, 0.125, 0.5, 3, 1}}},
 {"best_point_failed_sub_false (evsStale)", 1, 0, -HUGE_VAL, {0.25, 0.75}, {3, 1, 2}, 0, {{-5, 0.125, 0.5, 3, 1}}},
 {"stopval own", 1, 0, 2, {0.25}, {3, 1}, 0, {{0}}},
 {"stopval through a local search", 1, 0, 0.75, {0.25}, {3, 1}, 0, {{4, 0.125, 0.5, 3, 0}}},
 {"stopval_nan_false", 1, 0, 1, {0.25}, {3, NAN}, 0, {{4, 0.75, 0, 3, 0}}},
 {"ties: newest first", 1, 2, -HUGE_VAL, {0.25}, {1, 1}, 0, {{0}}},
 {"boundary rule", 1, 0, -HUGE_VAL, {0.0, 0.75}, {3, 1, 2}, 3, {{0}}},
 {"second pass", 1, 0, -HUGE_VAL, {0.25, 0.75}, {3, 1, 0.25}, 0, {{4, 0.125, 0.5, 3, 0}, {-1, 0.5, 7, 2, 0}}},
 {"closest-better-point rule: same place (distance 0 <= R^2 = 0), ONE search", 3, 0, -HUGE_VAL, {0.25, 0.25, 0.75, 0.625}, {3, 1, 2, 5, 6}, 5, {{4, 0.125, 0.5, 3, 0}}},
 {"closest-better-point rule: control (distance > 0), TWO searches", 3, 0, -HUGE_VAL, {0.25, 0.375, 0.75, 0.625}, {3, 1, 2, 5, 6}, 5, {{4, 0.125, 0.5, 3, 0}, {4, 0.375, 2, 1, 0}}},
 {"invalid population", -1, 0, -HUGE_VAL, {0.25}, {3, 1}, 0, {{0}}},
};

int main(void) {
    unsigned k;
    for (k = 0; k < sizeof wits / sizeof wits[0]; ++k) {
        double lb = 0, ub = 1, x = 0.5, minf = 12345; nlopt_stopping stop; int nevals = 0; nlopt_result ret;
        W = &wits[k]; ownno = subno = sampno = in_sub = force_flag = 0; budgets[0] = 0;
        stop.n = 1; stop.minf_max = W->stopval; stop.ftol_rel = stop.ftol_abs = stop.xtol_rel = 0; stop.xtol_abs = NULL;
        stop.x_weights = NULL; stop.nevals_p = &nevals; stop.maxeval = W->maxeval; stop.maxtime = 0; stop.start = 0;
        stop.force_stop = &force_flag; stop.stop_msg = NULL;
        printf("cfg n=1 pop=%d maxeval=%d stopval=%s x0=%s lb=%s ub=%s\n", W->pop, W->maxeval, hx(W->stopval), hx(x), hx(lb), hx(ub));
        ret = mlsl_minimize(1, obj, NULL, &lb, &ub, &x, &minf, &stop, (nlopt_opt)&stop, W->pop, 0);
        printf("end\nbudgets\n");
        printf("expect %d %d %s %s 0 0   # %s\n", (int)ret, nevals, hx(x), ret == NLOPT_INVALID_ARGS && !nevals ? "-" : hx(minf), W->name);
        printf("expect %s\n", budgets[0] ? budgets : "-");
        if (stop.stop_msg) free(stop.stop_msg);
    }
    return 0;
}
