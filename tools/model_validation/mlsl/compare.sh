#!/bin/sh
# usage: compare.sh <seed> <nruns> [nan]  -- runs the C harness, replays through `nlopt_model mlsl`, compares
D=$(cd "$(dirname "$0")" && pwd)
S="$D/src"
OPT=${OPT:--O2}
SRC="$S/redblack.c $S/stop.c $S/timer.c $S/sobolseq.c $S/mt19937ar.c"
[ -x "$D/mlsl_replay$OPT" ] || gcc $OPT -o "$D/mlsl_replay$OPT" "$D/mlsl_replay.c" $SRC -I"$S" -lm || exit 1
"$D/mlsl_replay$OPT" "$1" "$2" $3 > /tmp/mlsl_trace_$1.txt
grep '^expect' /tmp/mlsl_trace_$1.txt | sed 's/^expect //' > /tmp/mlsl_expect_$1.txt
grep -v '^expect' /tmp/mlsl_trace_$1.txt | "$D/../.lake/build/bin/nlopt_model" mlsl > /tmp/mlsl_model_$1.txt
if cmp -s /tmp/mlsl_expect_$1.txt /tmp/mlsl_model_$1.txt; then echo "seed $1: $(wc -l < /tmp/mlsl_expect_$1.txt) lines agree"; else echo "seed $1: MISMATCH"; diff /tmp/mlsl_expect_$1.txt /tmp/mlsl_model_$1.txt | head -10; fi
